"""C05 - merging is local: wrapping under a key chain commutes with merging; siblings do not interfere."""
from engine.api import Harness
from engine.symlib import pick, site, reset, wit, note, untraced, reraise_internal
from engine import refmodel as rm
from awesomeyaml.builder import Builder
from awesomeyaml.eval_context import EvalContext
from harness.C04 import older_spec, newer_spec, _flags

PROPERTY = {
    'id': 'C05',
    'technique': 'CrossHair symbolic execution of two related builds per path (metamorphic, no oracle): documents with symbolic delete/priority flags vs. the same documents wrapped under a key chain / with a sibling subtree changed; z3 decides the equality of both results for all flag values on every path',
    'assumptions': [
        'metadata codec stub for !metadata:<token> sites (native replays use the real pickle codec)',
        'document family = the C04 family (older content x newer node) incl. falsy leaves and ancestor-named keys',
    ],
    'bounds': {'wrapping chains': "['x'], ['p'], ['w','p'], ['z','x'], ['n','w'] (keys that also occur inside the documents)",
               'stages': '2 (quick) / 2..3 (thorough)', 'flags': 'newer node: delete {absent,T,F} x priority {absent,-1,0,1}; two older entries: priority {absent,-1,0,1} / {absent,1}',
               'sibling experiment': 'a sibling entry of the focus (inside and outside the deleting node) gets an arbitrary priority / different content; every other path must come out identical',
               'key names': 'an entry of the newer node named x / y / n / v (keys occurring one and two levels below an unmentioned sibling mapping) vs a fresh name, symbolic priorities and delete flag',
               },
    'outside': ['wrapping under list indices', 'chains longer than 2'],
    'per_split_timeout': {'quick': 600, 'thorough': 1800},
    'wall_budget': {'quick': 1500, 'thorough': 7000},
}

CHAINS = [['x'], ['p'], ['w', 'p'], ['z', 'x'], ['n', 'w']]


def _build(docs):
    b = Builder()
    b.add_multiple_sources(*docs, raw_yaml=True)
    root = b.build()
    return EvalContext().evaluate(root)


def _outcome(docs):
    try:
        return ('ok', _build(docs))
    except Exception as e:
        reraise_internal(e)
        return ('err', type(e).__name__)


def _specs(split, ppn, pn, dpn, dn, ppa, pa, ppb, pb, sa_plain=False):
    sn = ('sn', _flags(ppn, pn, dpn, dn))
    sa = None if sa_plain else ('sa', _flags(ppa, pa))
    sb = ('sb', _flags(ppb, pb))
    o = ('m', [('p', older_spec(split['older'], sa, sb)), ('q', ('s', 99))], None)
    n = ('m', [('p', newer_spec(split['newer'], sn))], None)
    specs = [o, n]
    if split.get('third'):
        specs.append(('m', [('p', ('m', [('y', ('s', 20)), ('t', ('s', 21))], None))], None))
    return specs


def c05_wrap(split, ppn, pn, dpn, dn, ppa, pa, ppb, pb):
    """build(D_1..D_n) wrapped under a chain == build({k1: {k2: D_i}})"""
    reset()
    chain = CHAINS[split['chain']]
    specs = _specs(split, ppn, pn, dpn, dn, ppa, pa, ppb, pb)
    docs = [rm.spec_text(s, site) for s in specs]
    wdocs = [rm.spec_text(rm.wrap_spec(s, chain), site) for s in specs]
    base = _outcome(docs)
    wrapped = _outcome(wdocs)
    note(docs=docs, wdocs=wdocs, base=repr(base), wrapped=repr(wrapped))
    if base[0] == 'err' or wrapped[0] == 'err':
        wit('error_both' if base == wrapped else 'error_one')
        return base[0] == wrapped[0] and base[1] == wrapped[1]
    cur = wrapped[1]
    for k in chain:
        if not isinstance(cur, dict) or list(cur.keys()) != [k]:
            return False
        cur = cur[k]
    wit('built')
    if isinstance(base[1].get('p'), dict) and 'y' in base[1]['p'] and split['newer'] in (0, 1, 3):
        wit('entry_survived')
    return cur == base[1]


def _drop(d, key):
    return {k: v for k, v in d.items() if not (type(k) is type(key) and k == key)}


def c05_sibling(split, ppn, pn, dpn, dn, ppa, pa, ppb, pb):
    """the first entry of the older focus gets an arbitrary priority (vs. none): nothing but that entry may change;
    and an unrelated top-level sibling with its own deleting node does not influence the focus"""
    reset()
    specs1 = _specs(split, ppn, pn, dpn, dn, ppa, pa, ppb, pb)
    specs2 = _specs(split, ppn, pn, dpn, dn, ppa, pa, ppb, pb, sa_plain=True)
    # second experiment: add an unrelated sibling subtree with tags to every stage of run 1
    extra_o = ('r', ('m', [('x', ('s', 7, ('se', {'priority': 1}))), ('y', ('s', 8))], None))
    extra_n = ('r', ('m', [('y', ('s', 9))], ('sf', {'delete': True})))
    specs1 = [('m', list(specs1[0][1]) + [extra_o], None), ('m', list(specs1[1][1]) + [extra_n], None)] + specs1[2:]
    docs1 = [rm.spec_text(s, site) for s in specs1]
    docs2 = [rm.spec_text(s, site) for s in specs2]
    r1 = _outcome(docs1)
    r2 = _outcome(docs2)
    note(docs1=docs1, docs2=docs2, r1=repr(r1), r2=repr(r2))
    if r1[0] == 'err' or r2[0] == 'err':
        wit('error')
        return r1[0] == r2[0] and r1[1] == r2[1]
    wit('built')
    a, b = r1[1], r2[1]
    if a.get('r') != {'x': 7, 'y': 9}:
        return False
    a = _drop(a, 'r')
    first = 'w' if split['older'] == 2 else ('l' if split['older'] == 3 else 'x')
    if split['older'] == 1:
        # the site sits on the whole older list: its priority legitimately decides the list as a whole
        return True
    pa_, pb_ = a.get('p'), b.get('p')
    if isinstance(pa_, dict) and isinstance(pb_, dict):
        if (first in pa_) != (first in pb_) or (first in pa_ and pa_[first] != pb_[first]):
            wit('sibling_differs')
        return _drop(pa_, first) == _drop(pb_, first) and _drop(a, 'p') == _drop(b, 'p')
    note(unexpected='focus is not a mapping in both runs')
    return False


def c05_wrap_ops(split, op, n, ki, ci):
    """premerge operators (!append / !extend on existing, missing, scalar and mapping targets) commute with wrapping:
    the operator's target is resolved relative to where the document sits"""
    from harness.C16 import base_text, op_text, KEYS as LKEYS
    reset()
    op = pick(op, 9)              # operators 0..8 of C16: append/extend (no !prev: its argument is an absolute path)
    n = pick(n, 3)
    K = LKEYS[pick(ki, len(LKEYS))]
    chain = CHAINS[pick(ci, len(CHAINS))]
    L = ['100', '{y: 101}'][:n]
    k1, v1 = op_text(op, K, L)

    def indent(text, chain_):
        out = text
        for key in reversed(chain_):
            out = key + ':\n' + ''.join('  ' + line + '\n' for line in out.rstrip('\n').split('\n'))
        return out
    docs = [base_text(K), '%s: %s\n' % (k1, v1)]
    wdocs = [indent(d, chain) for d in docs]
    base = _outcome(docs)
    wrapped = _outcome(wdocs)
    note(docs=docs, wdocs=wdocs, base=repr(base), wrapped=repr(wrapped))
    if base[0] == 'err' or wrapped[0] == 'err':
        wit('error_both' if base == wrapped else 'error_one')
        return base[0] == wrapped[0] and base[1] == wrapped[1]
    cur = wrapped[1]
    for k in chain:
        if not isinstance(cur, dict) or list(cur.keys()) != [k]:
            return False
        cur = cur[k]
    wit('built')
    return cur == base[1]


RENAMES = ['x', 'y', 'n', 'v']      # names that also occur as keys one and two levels below an unmentioned sibling mapping
OLD_DEEP = 'a: {b: {x: %(SA)s 1, y: 2, n: {y: %(SB)s 4, v: 5}}, c: 3}'


def c05_rename(split, ki, ppn, pn, dpn, dn, ppa, pa, ppb, pb, ppk, pk):
    """the newer document holds ONE entry next to an unmentioned mapping; naming that entry like a key somewhere
    below the unmentioned mapping (vs. a fresh name) must not change anything but the entry's own key"""
    reset()
    K = RENAMES[pick(ki, len(RENAMES))]
    fa, fb = _flags(ppa, pa), _flags(ppb, pb)
    fn, fk = _flags(ppn, pn, dpn, dn), _flags(ppk, pk)

    def docs(key):
        old = OLD_DEEP % {'SA': site('sa', fa) if fa else '', 'SB': site('sb', fb) if fb else ''}
        new = 'a: %s {%s: %s 9}' % (site('sn', fn) if fn else '', key, site('sk', fk) if fk else '')
        out = [old, new]
        if split.get('third'):
            out.append('a: {b: {t: 7}}')
        return out
    d1, d2 = docs(K), docs('fresh')
    r1, r2 = _outcome(d1), _outcome(d2)
    note(docs1=d1, docs2=d2, r1=repr(r1), r2=repr(r2))
    if r1[0] == 'err' or r2[0] == 'err':
        wit('error')
        return r1 == r2
    wit('built')
    a1, a2 = dict(r1[1]['a']), dict(r2[1]['a'])
    if K in a1:
        wit('entry_present')
    # rename the entry back and compare everything
    if ('fresh' in a2) != (K in a1):
        return False
    if K in a1:
        if a1[K] != a2['fresh']:
            return False
        del a1[K]
        del a2['fresh']
    return a1 == a2


def _splits_wrap(tier):
    out = []
    for ci in range(len(CHAINS)):
        for older in (0, 2, 3):
            for newer in ((0, 3, 4, 5, 6) if tier == 'quick' else range(7)):
                if (older == 3) != (newer == 6) and not (older == 3 and newer in (4, 5)):
                    continue
                if tier == 'quick' and (ci in (1, 4) or newer == 4 or (ci == 3 and newer not in (0, 3))):
                    continue
                for pre in ('ppn', 'not ppn'):
                    if tier == 'quick':
                        pre = pre + (' and ppb' if (older + newer + ci) % 2 == 0 else ' and not ppb')
                    out.append({'chain': ci, 'older': older, 'newer': newer, 'third': False, '_pre': pre})
                    if tier != 'quick' and newer in (0, 3):
                        out.append({'chain': ci, 'older': older, 'newer': newer, 'third': True, '_pre': pre})
    return out


def _splits_sibling(tier):
    out = []
    for older in (0, 2, 3):
        for newer in (0, 1, 3, 6):
            if (older == 3) != (newer == 6):
                continue
            for pre in ('ppn', 'not ppn'):
                out.append({'older': older, 'newer': newer, 'third': False, '_pre': pre})
                if tier != 'quick':
                    out.append({'older': older, 'newer': newer, 'third': True, '_pre': pre})
    return out


PARAMS = [('ppn', 'bool'), ('pn', 'int', -1, 1), ('dpn', 'bool'), ('dn', 'bool'),
          ('ppa', 'bool'), ('pa', 'int', -1, 1), ('ppb', 'bool'), ('pb', 'int', 1, 1)]

HARNESSES = {
    'c05_rename': Harness('c05_rename', c05_rename,
                          [('ki', 'int', 0, len(RENAMES) - 1)] + PARAMS + [('ppk', 'bool'), ('pk', 'int', -1, 1)],
                          lambda tier: [{'third': t, '_pre': 'ki == %d and %s' % (k, pre)} for t in ((False,) if tier == 'quick' else (False, True))
                                        for k in range(len(RENAMES)) for pre in ('dpn and dn', 'dpn and not dn and ppn', 'dpn and not dn and not ppn', 'not dpn and ppn', 'not dpn and not ppn')],
                          doc='two builds per path: an entry of the newer (possibly deleting) node named like a key below an unmentioned sibling mapping vs a fresh name; symbolic priorities on that entry, on the node and on two nested older leaves',
                          witnesses=('built', 'entry_present')),
    'c05_wrap': Harness('c05_wrap', c05_wrap, PARAMS, _splits_wrap,
                        doc='two builds per path: documents vs documents wrapped under a key chain (keys also used inside); results must be equal under the chain',
                        witnesses=('built', 'entry_survived')),
    'c05_wrap_ops': Harness('c05_wrap_ops', c05_wrap_ops, [('op', 'int', 0, 8), ('n', 'int', 0, 2), ('ki', 'int', 0, 2), ('ci', 'int', 0, len(CHAINS) - 1)],
                            lambda tier: [{'_pre': 'ki == %d' % k + (' and n == 1' if tier == 'quick' else '')} for k in range(3)],
                            doc='!append / !extend documents vs the same documents wrapped under a key chain (3 spellings of the list key)', witnesses=('built',)),
    'c05_sibling': Harness('c05_sibling', c05_sibling, PARAMS, _splits_sibling,
                           doc='two builds per path: sibling entry with an arbitrary priority vs plain, plus an unrelated tagged sibling subtree; all other paths equal',
                           witnesses=('built', 'sibling_differs')),
}
