"""C10 - every dynamic node is evaluated exactly once, consumers share the object, key order is irrelevant."""
from engine.api import Harness
from engine.symlib import pick, reset, wit, note, untraced, reraise_internal
from engine import targets
from awesomeyaml.builder import Builder
from awesomeyaml.config import Config
from awesomeyaml.eval_context import EvalContext

PROPERTY = {
    'id': 'C10',
    'technique': 'CrossHair symbolic execution of EvalContext/evaluate_node memoisation and container evaluation over configs with recording dynamic nodes; the key order is a symbolic permutation index, the set of nodes overwritten/deleted by a later stage is symbolic; invocation log and object identity are asserted on every path',
    'assumptions': ['recording callables return fixed distinct objects (one of them returns None), so results are order-independent by construction of the targets'],
    'bounds': {'dynamic nodes': '3 !call nodes at top level (one returning None), 1 nested !call, 1 !call whose target runs an independent nested Config.build (sub-config factory) while the outer evaluation is in progress, 1 !eval name consumer, consumers: 2 !xref, 2 call arguments by !xref, !xref into a nested path, !eval of a container',
               'key orders': '30 orders of the 12 top-level keys (one key, "box.k", spells the path of a nested node) (all rotations, their reversals, definitions-last, consumers-first, ...)',
               'later stage': 'overwrites the None-returning call with a scalar / deletes the nested call / overwrites the !eval - each by a symbolic boolean'},
    'outside': ['all 10! key orders', 'dynamic nodes inside included files'],
    'per_split_timeout': {'quick': 600, 'thorough': 1800},
    'wall_budget': {'quick': 1500, 'thorough': 7000},
}

LINES = {
    'p': "p: !call:engine.targets.f {k: 1}",
    'n': "n: !call:engine.targets.g {}",
    'q': "q: !call:engine.targets.h {v: !xref p, w: !xref n}",
    'x': "x: !xref p",
    'y': "y: !xref n",
    'e': 'e: !eval "p"',
    'box': "box: {inner: !call:engine.targets.ident {x: !xref q}, k: 3}",
    'xi': "xi: !xref 'box.inner'",
    'eb': 'eb: !eval "box"',
    'd': "d: [1, 2]",
    'box.k': "'box.k': !call:engine.targets.mk {x: [5]}",
    'sub': "sub: !call:engine.targets.sub {}",
}
KEYS = list(LINES)


def _orders():
    out = []
    for r in range(len(KEYS)):
        rot = KEYS[r:] + KEYS[:r]
        out.append(rot)
        out.append(list(reversed(rot)))
    out.append(['x', 'y', 'e', 'xi', 'eb', 'q', 'box.k', 'box', 'sub', 'd', 'n', 'p'])      # consumers first, definitions last
    out.append(['xi', 'eb', 'box', 'e', 'x', 'p', 'sub', 'y', 'n', 'q', 'd', 'box.k'])
    out.append(['eb', 'xi', 'e', 'y', 'sub', 'x', 'q', 'n', 'p', 'box', 'box.k', 'd'])
    out.append(['box.k', 'q', 'sub', 'xi', 'eb', 'y', 'n', 'x', 'e', 'p', 'd', 'box'])
    out.append(['d', 'box', 'eb', 'xi', 'q', 'p', 'n', 'e', 'y', 'x', 'box.k', 'sub'])
    out.append(['sub', 'y', 'n', 'x', 'p', 'xi', 'box.k', 'box', 'eb', 'q', 'e', 'd'])
    return out


ORDERS = _orders()
F, H, I = ['F'], {'H': 1}, None


def c10_once(split, order, ov_n, del_box, ov_e, rep_box):
    reset()
    targets.RET.clear()
    targets.RET.update({'f': F, 'g': None, 'h': H})
    order = pick(order, len(ORDERS))
    doc1 = '\n'.join(LINES[k] for k in ORDERS[order]) + '\n'
    s2 = []
    if ov_n:
        s2.append('n: 5')
    if del_box:
        s2.append('box: !del ')
        s2.append('xi: 0')
        s2.append('eb: 0')
    if ov_e:
        s2.append('e: 7')
    if rep_box and not del_box:
        # a deleting mapping replaces the content of box: the nested call must be gone, not merely emptied
        s2.append('box: !del {k: 4}')
        s2.append('xi: 0')
    docs = [doc1, '{' + ', '.join(s2) + '}']
    note(docs=docs)
    try:
        if split.get('config'):
            cfg = Config.build(*docs, raw_yaml=True)
        else:
            b = Builder()
            b.add_multiple_sources(*docs, raw_yaml=True)
            cfg = EvalContext().evaluate(b.build())
    except Exception as e:
        reraise_internal(e)
        note(error=repr(e)[:300], cause=repr(getattr(e, '__cause__', None))[:200])
        return False
    log = [e[0] for e in targets.LOG]
    note(log=repr(targets.LOG), got=repr(cfg))
    counts = {k: log.count(k) for k in ('f', 'g', 'h', 'ident', 'mk', 'sub', 'leaf')}
    want = {'f': 1, 'g': 0 if ov_n else 1, 'h': 1, 'ident': 0 if (del_box or rep_box) else 1, 'mk': 1, 'sub': 1, 'leaf': 1}
    if counts != want:
        note(counts=counts, want=want)
        return False
    wit('counted')
    nval = 5 if ov_n else None
    ok = cfg['p'] is F and cfg['x'] is cfg['p'] and cfg['q'] is H and cfg['n'] == nval and cfg['y'] == nval
    ok = ok and (cfg['e'] == 7 if ov_e else cfg['e'] is cfg['p'])
    # the consumer call received the very objects the producers evaluated to
    hcall = [e for e in targets.LOG if e[0] == 'h'][0]
    kw = dict(hcall[2])
    ok = ok and kw.get('v') is F and kw.get('w') == nval
    if rep_box and not del_box:
        ok = ok and dict(cfg['box']) == {'k': 4} and cfg['eb'] is cfg['box'] and cfg['xi'] == 0
        wit('box_replaced')
    elif not del_box:
        ok = ok and cfg['box']['inner'] is H and cfg['xi'] is H and cfg['eb'] is cfg['box'] and type(cfg['eb']) is type(cfg['box'])
        ok = ok and dict(cfg['box']) == {'inner': H, 'k': 3}
        wit('box_checked')
    else:
        ok = ok and 'box' not in cfg
    ok = ok and cfg['d'] == [1, 2] and cfg['box.k'] == [5] and cfg['sub'] == {'r': [1], 'same': True}
    # independent of the order: the set of keys and every value
    exp_keys = set(KEYS) - ({'box'} if del_box else set())
    ok = ok and set(cfg.keys()) == exp_keys
    return ok


def _splits(tier):
    out = []
    n = len(ORDERS)
    step = 2
    for lo in range(0, n, step):
        out.append({'config': False, '_pre': '%d <= order < %d' % (lo, min(n, lo + step))})
    if tier != 'quick':
        for lo in range(0, n, step):
            out.append({'config': True, '_pre': '%d <= order < %d' % (lo, min(n, lo + step))})
    else:
        out.append({'config': True, '_pre': 'order == 20 or order == 23'})
    return out


HARNESSES = {
    'c10_once': Harness('c10_once', c10_once,
                        [('order', 'int', 0, len(ORDERS) - 1), ('ov_n', 'bool'), ('del_box', 'bool'), ('ov_e', 'bool'), ('rep_box', 'bool')], _splits, pre='not (rep_box and del_box)',
                        doc='10 top-level keys (3 calls, nested call, eval, xrefs) in a symbolic order; later stage removes a symbolic subset', witnesses=('counted', 'box_checked')),
}
