"""C20 - concurrent builds in different threads do not influence each other (schedules as solver variables)."""
import os
import sys
import json
import time
import shutil
import hashlib
import tempfile
import subprocess

ROOT = os.path.dirname(os.path.dirname(os.path.abspath(__file__)))

PROPERTY = {
    'id': 'C20',
    'engine': 'sched-smt',
    'technique': 'z3 encoding of thread interleavings generated from executions of the real code, which is compiled from /repo\'s current source through an instrumenting AST transformer (import hook): every load / store / delete of an attribute that lives on a class, metaclass or module of the package, every `global` variable access, every Python-level access to a module-/class-level dict/list/set (recording subclasses) and every access to the thread-local slots named by the property is an event; one integer time-stamp per event, program order + read-from constraints; the solver decides whether ANY schedule lets a read return what another thread\'s write stored (unsat = no interleaving can change any thread\'s reads); satisfying schedules are replayed with real threads under a baton-passing scheduler before anything is reported',
    'level_text': 'Bounded predictive analysis decided by z3: for every scenario (2..3 threads with different files, safe flags, an include, a failing input) the query "some schedule makes some read return a value written by another thread" is unsat over ALL interleavings at shared-memory-event granularity (finer than Python lines).  Inputs are enumerated scenarios; only the schedule is symbolic.',
    'assumptions': [
        'inter-thread communication of a build goes through state held by classes / modules of the package: attributes of classes, metaclasses and modules (source instrumentation), module-/class-level dict/list/set objects (recording subclasses), the thread-local holders ConfigNode._default_filename / _default_safe (metaclass slot + proxy) and errors._api_entered (proxy); cells no thread of a scenario writes are dropped from the encoding; state reachable only through instances, closures, or held by other packages (PyYAML loader tables, sys.modules) is not recorded',
        'the instrumented package computes what the package as shipped computes: checked on every run for every thread body (run alone, un-instrumented, in a separate process)',
        'lazily filled caches are warm: every body runs once unrecorded before the recording (first-use races of the scalar type tables are outside the claim)',
        'each wrapped access is atomic under the GIL; the code of a thread is deterministic given the values it reads',
        'vacuity guards: the same machinery run on (1) a twin in which one slot is a plain (non thread-local) object and (2) a twin in which the builder parks itself in a plain class attribute during add_source must each find and replay a real violation',
    ],
    'bounds': {'threads': '2 (quick) / 2..4 (thorough)', 'scenarios': 'quick: 9 pairs; thorough: all 36 pairs (with repetition), all 56 triples and 4 quadruples over 8 thread bodies (safe file, unsafe file, file with include, failing input after a good source, multi-document file, evaluated unsafe call (refused), the same call from a safe file, evaluated safe file with xref/eval/call sharing paths with the former)',
               'events': '<= ~400 per thread'},
    'outside': ['thread inputs beyond the listed bodies', 'more than 4 threads', 'shared state outside the package (sys.modules entries created by multi-line !eval are outside: the !eval here is a single expression)'],
}


def write_files(d):
    open(os.path.join(d, 'fA.yaml'), 'w').write('a: [1, 2, 3]\nb: {c: [1, 2], d: !force 5}\n')
    open(os.path.join(d, 'fB.yaml'), 'w').write('x: 1\ny: {z: 2, w: [3]}\n')
    open(os.path.join(d, 'fC.yaml'), 'w').write('k: !include inc.yaml\nm: 1\n')
    open(os.path.join(d, 'inc.yaml'), 'w').write('i: [7, 8]\nj: {q: 1}\n')
    open(os.path.join(d, 'bad.yaml'), 'w').write('p: 1\nbad: !nosuchtag 1\n')
    open(os.path.join(d, 'fE.yaml'), 'w').write('e1: {e2: [1]}\n---\ne3: 2\n')
    open(os.path.join(d, 'fF.yaml'), 'w').write('f: !call:dict {u: 1}\ng: 2\n')
    open(os.path.join(d, 'fG.yaml'), 'w').write('g: !xref f.u\nf: !call:dict {u: 7, w: !eval "g + 1"}\nh: !xref f\n')


def bodies(d):
    j = lambda n: os.path.join(d, n)
    return {
        'A': {'sources': [(j('fA.yaml'), True)]},
        'B': {'sources': [(j('fB.yaml'), False)]},
        'C': {'sources': [(j('fC.yaml'), True)]},
        'D': {'sources': [(j('fA.yaml'), True), (j('bad.yaml'), True)]},
        'E': {'sources': [(j('fE.yaml'), None), (j('fB.yaml'), True)]},
        'F': {'sources': [(j('fF.yaml'), False)], 'evaluate': True},
        'G': {'sources': [(j('fG.yaml'), True)], 'evaluate': True},
        'H': {'sources': [(j('fF.yaml'), True)], 'evaluate': True},
    }


def scenarios(tier):
    pairs = [('A', 'B'), ('A', 'C'), ('B', 'C'), ('A', 'D'), ('C', 'D'), ('B', 'D'), ('B', 'F'), ('H', 'G'), ('F', 'G'), ('E', 'C'), ('D', 'F'), ('A', 'A'), ('G', 'G')]
    if tier == 'quick':
        return [list(p) for p in pairs[:9]]
    import itertools
    names = 'ABCDEFGH'
    out = [list(p) for p in itertools.combinations_with_replacement(names, 2)]            # all 36 pairs (a body may run twice)
    out += [list(t) for t in itertools.combinations(names, 3)]                               # all 56 triples of distinct bodies
    out += [['A', 'B', 'C', 'D'], ['D', 'F', 'G', 'H'], ['C', 'E', 'G', 'H'], ['G', 'G', 'H', 'H']]
    return out


def run(tier, seed, twin=False):
    sys.path.insert(0, ROOT)
    from engine import sched_smt as ss, sched_instr
    sched_instr.install_hook(ss.S)       # the package is compiled from its current source through the instrumenting transformer
    t0 = time.time()
    d = tempfile.mkdtemp(prefix='verif_C20_', dir=os.environ.get('VERIF_WORK', '/var/tmp'))
    try:
        write_files(d)
        if twin == 'attr':
            # second twin: a per-parse value parked in a plain CLASS attribute (found only by the source instrumentation)
            import awesomeyaml.builder as ab
            orig_add = ab.Builder.add_source

            def add_source(self, source, *a, **kw):
                ab.Builder.current = self
                r = orig_add(self, source, *a, **kw)
                if ab.Builder.current is not self:
                    raise RuntimeError('builder changed under my feet')
                return r
            src = 'def add_source(self, source, *a, **kw):\n    Builder.current = self\n    r = _orig_add(self, source, *a, **kw)\n    if Builder.current is not self:\n        raise RuntimeError("builder changed under my feet")\n    return r\n'
            import ast
            tree = ast.parse(src)
            tree = sched_instr.Instr('awesomeyaml.builder', tree).visit(tree)
            ast.fix_missing_locations(tree)
            ns = {'Builder': ab.Builder, '_orig_add': orig_add}
            exec(compile(tree, '<twin>', 'exec'), ns)
            ab.Builder.current = None
            ab.Builder.add_source = ns['add_source']
        elif twin:
            import types
            from awesomeyaml.nodes.node import ConfigNode
            ConfigNode._default_filename = types.SimpleNamespace()     # the twin: a slot that is NOT thread-local
        cells = ss.install()
        inventory = ss.shared_state_inventory()
        bd = bodies(d)
        results = []
        for sc in scenarios(tier):
            threads = [('%s%d' % (n, i), bd[n]) for i, n in enumerate(sc)]
            r = ss.solve_scenario(threads)
            r['scenario'] = sc
            results.append(r)
            r['seq'] = json.loads(json.dumps(r['seq'], default=repr).replace(d, '<D>'))
            if twin and r['verdict'] == 'violation':
                break
        st = sched_instr.STATS
        instr = {'modules_instrumented': sorted(st['modules']), 'attribute_loads': st['loads'], 'attribute_stores': st['stores'],
                 'global_loads': st['global_loads'], 'global_stores': st['global_stores'], 'not_instrumented': sorted(set(st['skipped']))}
        return {'results': results, 'cells': cells, 'inventory': inventory, 'wall': time.time() - t0, 'dir': d, 'instrumentation': instr}
    finally:
        shutil.rmtree(d, ignore_errors=True)


def main(tier, seed):
    """entry point used by ./check C20"""
    py = os.path.join(ROOT, '.venv', 'bin', 'python')
    env = dict(os.environ, PYTHONPATH=((os.environ['VERIF_REPO'] + os.pathsep) if os.environ.get('VERIF_REPO') else '') + ROOT)
    t0 = time.time()
    out = subprocess.run([py, '-m', 'harness.C20', 'run', tier, str(seed)], cwd=ROOT, env=env, capture_output=True, text=True, timeout=3000)
    tw = subprocess.run([py, '-m', 'harness.C20', 'twin', 'quick', str(seed)], cwd=ROOT, env=env, capture_output=True, text=True, timeout=3000)
    tw2 = subprocess.run([py, '-m', 'harness.C20', 'twin_attr', 'quick', str(seed)], cwd=ROOT, env=env, capture_output=True, text=True, timeout=3000)
    pl = subprocess.run([py, '-m', 'harness.C20', 'plain', tier, str(seed)], cwd=ROOT, env=env, capture_output=True, text=True, timeout=3000)

    def parse(p):
        for line in p.stdout.splitlines():
            if line.startswith('C20-RESULT '):
                return json.loads(line[len('C20-RESULT '):])
        return None
    res, twin, twin2, plain = parse(out), parse(tw), parse(tw2), parse(pl)
    if res is None or twin is None or twin2 is None or plain is None:
        print('MACHINERY-ERROR C20 engine produced no result', (out.stderr or '')[-1500:], (tw.stderr or '')[-800:], (tw2.stderr or '')[-800:], (pl.stderr or '')[-800:])
        return 3
    # the instrumented package must compute what the package as shipped computes (encoding validated against the real code)
    validated = 0
    for r in res['results']:
        for i, n in enumerate(r['scenario']):
            if r['seq'].get('%s%d' % (n, i)) != plain['bodies'].get(n):
                print('MACHINERY-ERROR C20 the instrumented package and the package as shipped disagree on body %s: %r vs %r'
                      % (n, str(r['seq'].get('%s%d' % (n, i)))[:300], str(plain['bodies'].get(n))[:300]))
                return 3
            validated += 1
    viol = [r for r in res['results'] if r['verdict'] == 'violation']
    inconc = [r for r in res['results'] if r['verdict'] in ('unknown',) or (r['verdict'] == 'benign_exhausted' and r.get('note'))]
    twin_detected = any(r['verdict'] == 'violation' for r in twin['results']) and any(r['verdict'] == 'violation' for r in twin2['results'])
    n_ev = sum(r['stats']['events'] for r in res['results'])
    n_q = sum(r['stats']['queries'] for r in res['results'])
    st = sum(r['stats']['solver_time'] for r in res['results'])
    evidence = {
        'property_id': 'C20', 'tier': tier, 'seed': seed, 'level': 'model_checking',
        'coverage': {
            'states': max(1, n_ev), 'transitions': max(1, n_q),
            'traces_validated_against_impl': validated + sum(r['stats']['candidates_replayed'] for r in res['results']) + sum(r['stats']['candidates_replayed'] for r in twin['results'] + twin2['results']),
            'instrumentation': res.get('instrumentation'),
            'samples': [{'scenario': r['scenario'], 'verdict': r['verdict'], 'stats': r['stats']} for r in res['results'][:6]],
            'obligations': len(res['results']), 'discharged': sum(1 for r in res['results'] if r['verdict'] in ('unsat', 'benign_exhausted') and not r.get('note')),
            'exhaustive': not viol and not inconc,
            'explanation': 'states = recorded shared-memory events over all scenarios; transitions = z3 queries; one obligation per scenario: "no schedule lets any read observe a foreign write" (unsat), '
                           'or every satisfying schedule replayed with real threads and found benign then blocked until unsat.',
            'technique': PROPERTY['technique'], 'functions_encoded': res['cells'],
            'shared_state_inventory': res['inventory'], 'solver_queries': n_q, 'solver_time_s': round(st, 3),
            'twin': {'detected': twin_detected, 'results': [{'scenario': r['scenario'], 'verdict': r['verdict'], 'diff': r.get('diff')} for r in twin['results']][:3],
                     'results_class_attribute_twin': [{'scenario': r['scenario'], 'verdict': r['verdict'], 'diff': r.get('diff')} for r in twin2['results']][:3]},
            'bounds': PROPERTY['bounds'], 'outside_claim': PROPERTY['outside'],
        },
        'assumptions': PROPERTY['assumptions'], 'wall_s': round(time.time() - t0, 2), 'violations': len(viol),
    }
    evdir = os.environ.get('VERIF_EVIDENCE_DIR') or os.path.join(ROOT, 'evidence')
    os.makedirs(evdir, exist_ok=True)
    json.dump(evidence, open(os.path.join(evdir, 'C20.json'), 'w'), indent=1, default=repr)
    print('[C20] tier=%s scenarios=%d events=%d solver_queries=%d solver_time=%.2fs wall=%.1fs twin_detected=%s'
          % (tier, len(res['results']), n_ev, n_q, st, time.time() - t0, twin_detected))
    for r in res['results']:
        print('   %s: %s %s' % ('+'.join(r['scenario']), r['verdict'], r['stats']))
    if viol:
        os.makedirs(os.path.join(ROOT, 'replays'), exist_ok=True)
        for r in viol:
            h = hashlib.sha1(json.dumps(r['scenario']).encode()).hexdigest()[:10]
            rp = os.path.join(ROOT, 'replays', 'C20_%s.json' % h)
            json.dump({'property': 'C20', 'engine': 'sched-smt', 'scenario': r['scenario'], 'schedule': r['schedule'],
                       'diff': r['diff'], 'divergent_reads': r.get('divergent_reads')}, open(rp, 'w'), indent=1, default=repr)
            print('VIOLATION property=C20 replay=%s' % rp)
            print('   ' + json.dumps({'scenario': r['scenario'], 'diff': r['diff']}, default=repr)[:1200])
        return 1
    if not twin_detected:
        print('MACHINERY-ERROR C20 vacuity guard: the non-thread-local twin was not detected')
        return 3
    if inconc:
        print('INCONCLUSIVE', [(r['scenario'], r['verdict']) for r in inconc])
        return 2
    return 0


def replay_file(body):
    """re-run a recorded schedule with real threads"""
    sys.path.insert(0, ROOT)
    from engine import sched_smt as ss, sched_instr
    sched_instr.install_hook(ss.S)
    d = tempfile.mkdtemp(prefix='verif_C20_', dir=os.environ.get('VERIF_WORK', '/var/tmp'))
    try:
        write_files(d)
        ss.install()
        bd = bodies(d)
        threads = [('%s%d' % (n, i), bd[n]) for i, n in enumerate(body['scenario'])]
        seq, _ = ss.record_sequential(threads)
        res = ss.replay(threads, [tuple(x) for x in body['schedule']])
        same = res == seq
        print(json.dumps({'sequential_equals_concurrent': same}, indent=1))
        if not same:
            print('VIOLATION property=C20 replay=<this file>')
            return 1
        return 0
    finally:
        shutil.rmtree(d, ignore_errors=True)


def plain(tier):
    """every thread body run alone on the package AS SHIPPED (no import hook, no wrapped cell)"""
    sys.path.insert(0, ROOT)
    from engine import sched_smt as ss
    import threading
    d = tempfile.mkdtemp(prefix='verif_C20_', dir=os.environ.get('VERIF_WORK', '/var/tmp'))
    try:
        write_files(d)
        out = {}
        for n, spec in bodies(d).items():
            res = {}
            th = threading.Thread(target=ss.run_body, args=(n, spec, res))
            th.start()
            th.join()
            out[n] = json.loads(json.dumps(res[n], default=repr).replace(d, '<D>'))
        return {'bodies': out}
    finally:
        shutil.rmtree(d, ignore_errors=True)


if __name__ == '__main__':
    mode, tier, seed = sys.argv[1], sys.argv[2], int(sys.argv[3])
    if mode == 'plain':
        r = plain(tier)
    else:
        r = run(tier, seed, twin={'twin': True, 'twin_attr': 'attr'}.get(mode, False))
    print('C20-RESULT ' + json.dumps(r, default=repr))
