"""C11 - evaluation yields plain Python data; the retained source tree is reusable and isolated."""
import copy
from engine.api import Harness
from engine.symlib import pick, site, reset, wit, note, untraced, reraise_internal
from engine import targets
from awesomeyaml.config import Config
from awesomeyaml.nodes.node import ConfigNode
from awesomeyaml.eval_context import EvalContext

PROPERTY = {
    'id': 'C11',
    'technique': 'CrossHair symbolic execution of Config.__init__ (deepcopy + evaluate), Bunch access and re-evaluation of cfg.ayns.source; the mutation applied to the evaluated config and the merge flags of the source documents are symbolic; a recursive type walk is asserted on every path',
    'assumptions': ['recording targets return fresh mutable objects per call', 'metadata codec stub for flag sites (native replays use the real codec)'],
    'bounds': {'tree': 'mappings/lists/scalars of every scalar type, null, empty containers, underscore and int keys, !call, !bind, one-line and multi-line !eval, f-string, !xref, !path, !import; 2 merged stages with a symbolic delete flag / priority',
               'mutations': '12 in-place mutations (incl. the target of a forward reference) of the evaluated config (set/append/delete/clear at several depths, incl. results of dynamic nodes)', 'evaluations': '1..3 re-evaluations of the retained source, with a fresh context per evaluation or ONE caller-supplied EvalContext reused for all of them'},
    'outside': ['objects returned by user callables that are shared by the callable itself (not created per call)'],
    'per_split_timeout': {'quick': 600, 'thorough': 1800},
    'wall_budget': {'quick': 1500, 'thorough': 7000},
}

DOC1 = '''a: 1
b: {c: 2.5, d: [1, {e: txt}, []], _u: {v: true}, 7: seven}
n: null
emp: {}
s: 'q s'
call: !call:engine.targets.mk {x: [1, 2]}
bnd: !bind:engine.targets.f {k: 1}
ev: !eval "a + 1"
ml: !eval |
    lst = [a, 2]
    lst
fs: f'{a}-{s}'
xr: !xref b.d
pth: !path [x, y]
imp: !import math.pi
fwd: !xref later.inner
snap: !eval "later"
cnt: !eval "len(later)"
later: {inner: [1], k: 3, m: {z: 0}}
'''

MUTATIONS = ['a', 'b.c', 'b.d.append', 'b.d[1].e', 'b.del', 'call.append', 'ml.append', 'xr.append', 'emp.new', 'b._u.v', 'later.inner.append', 'later.m.new']


def walk(obj, path=''):
    """returns a reason string if an awesomeyaml node (or a non-plain container) is found"""
    if isinstance(obj, ConfigNode):
        return 'node at %s: %r' % (path, type(obj).__name__)
    if isinstance(obj, dict):
        if type(obj).__name__ == 'PartialChild':
            return 'internal placeholder at %s' % path
        for k, v in obj.items():
            if isinstance(k, ConfigNode):
                return 'node key at %s: %r' % (path, k)
            r = walk(v, '%s.%s' % (path, k))
            if r:
                return r
            if isinstance(k, str) and not k.startswith('_') and k.isidentifier() and not hasattr(type(obj), k):
                if getattr(obj, k) is not obj[k]:
                    return 'attribute access differs at %s.%s' % (path, k)
        return None
    if isinstance(obj, list):
        if type(obj) is not list:
            return 'list subclass at %s: %r' % (path, type(obj).__name__)
        for i, v in enumerate(obj):
            r = walk(v, '%s[%d]' % (path, i))
            if r:
                return r
        return None
    if isinstance(obj, tuple):
        for i, v in enumerate(obj):
            r = walk(v, '%s(%d)' % (path, i))
            if r:
                return r
    return None


def snapshot(cfg):
    """structural snapshot that does not alias the config (callables by name)"""
    def go(o):
        if isinstance(o, dict):
            return {k: go(v) for k, v in o.items()}
        if isinstance(o, (list, tuple)):
            return [go(v) for v in o]
        if callable(o):
            return 'callable:' + getattr(getattr(o, 'func', o), '__name__', '?')
        return o
    return go(cfg)


def mutate(cfg, m):
    try:
        _mutate(cfg, m)
    except (KeyError, IndexError, AttributeError):
        pass      # the addressed entry does not exist under this flag combination: no mutation


def _mutate(cfg, m):
    if m == 'a':
        cfg['a'] = 99
    elif m == 'b.c':
        cfg['b']['c'] = 'changed'
    elif m == 'b.d.append':
        cfg['b']['d'].append(5)
    elif m == 'b.d[1].e':
        cfg['b']['d'][1]['e'] = 'zz'
    elif m == 'b.del':
        del cfg['b']
    elif m == 'call.append':
        cfg['call'].append(7)
    elif m == 'ml.append':
        cfg['ml'].append(7)
    elif m == 'xr.append':
        cfg['xr'].append(8)
    elif m == 'emp.new':
        cfg['emp']['k'] = 1
    elif m == 'b._u.v':
        cfg['b']['_u']['v'] = False
    elif m == 'later.inner.append':
        cfg['later']['inner'].append(4)      # the target of a FORWARD reference
    elif m == 'later.m.new':
        cfg['later']['m']['new'] = 1


def c11_plain(split, mut, reps, dp, d, pp, p):
    reset()
    mut = pick(mut, len(MUTATIONS))
    reps = pick(reps, 3) + 1
    flags = {}
    if dp:
        flags['delete'] = d
    if pp:
        flags['priority'] = p
    doc2 = 'b: %s {c: 3.5, d: [9], n2: {z: [0]}}\na: !weak 5\n' % site('s2', flags)
    docs = [DOC1, doc2]
    note(docs=docs, mutation=MUTATIONS[mut])
    ctx = EvalContext() if split.get('shared_ctx') else None      # ONE context object for the build and every re-evaluation
    try:
        cfg = Config.build(*docs, raw_yaml=True, filename=['/proj/a.yaml', '/proj/b.yaml'], eval_ctx=ctx)
    except Exception as e:
        reraise_internal(e)
        note(error=repr(e)[:300], cause=repr(getattr(e, '__cause__', None))[:200])
        return False
    r = walk(cfg)
    if r:
        note(leak=r)
        return False
    types_ok = (type(cfg['a']) is int and type(cfg['b']['c']) is float and cfg['n'] is None and type(cfg['s']) is str
                and type(cfg['b']['d']) is list and cfg['ev'] == 2 and cfg['ml'] == [1, 2] and cfg['fs'] == '1-q s'
                and cfg['xr'] is cfg['b']['d'] and cfg['snap'] is cfg['later'] and cfg['cnt'] == 3 and cfg['fwd'] is cfg['later']['inner'] and cfg.b is cfg['b'] and cfg.b.d is cfg['b']['d'] and isinstance(cfg['emp'], dict))
    if not types_ok:
        note(types='unexpected value/type', got=repr(dict(cfg))[:600])
        return False
    wit('walked')
    snap0 = snapshot(cfg)
    src = cfg.ayns.source
    src_before = snapshot(src.ayns.native_value) if hasattr(src, 'ayns') else None
    mutate(cfg, MUTATIONS[mut])
    for i in range(reps):
        again = Config(cfg.ayns.source, eval_ctx=ctx)
        r = walk(again)
        if r:
            note(leak_again=r)
            return False
        if snapshot(again) != snap0:
            note(reeval_differs=repr(snapshot(again))[:500], first=repr(snap0)[:500], round=i)
            return False
        if split.get('shared_ctx') and (again['fwd'] is cfg['fwd'] or again['xr'] is cfg['xr'] or again['later'] is cfg['later']):
            note(shared_objects='a re-evaluation returned objects of the earlier result', round=i)
            return False
        if i == 0:
            mutate(again, MUTATIONS[(mut + 3) % len(MUTATIONS)])
    wit('reevaluated')
    return True


def _splits(tier):
    out = []
    for m in range(len(MUTATIONS)):
        if tier == 'quick':
            out.append({'_pre': 'mut == %d and reps <= 1' % m})
        else:
            out.append({'_pre': 'mut == %d' % m})
    # the caller passes ONE EvalContext to the build and to every re-evaluation (quick: mutations of reference targets)
    for m in range(len(MUTATIONS)):
        if tier != 'quick' or MUTATIONS[m] in ('later.inner.append', 'xr.append', 'b.d.append', 'call.append'):
            out.append({'shared_ctx': True, '_pre': 'mut == %d' % m + (' and reps >= 1' if tier == 'quick' else '')})
    return out


HARNESSES = {
    'c11_plain': Harness('c11_plain', c11_plain,
                         [('mut', 'int', 0, len(MUTATIONS) - 1), ('reps', 'int', 0, 2), ('dp', 'bool'), ('d', 'bool'), ('pp', 'bool'), ('p', 'int', -1, 1)],
                         _splits, doc='rich 2-stage config, symbolic merge flags, symbolic mutation of the result, 1..3 re-evaluations of the source', witnesses=('walked', 'reevaluated')),
}
