"""C02 - merging tag-free documents is a right-biased recursive mapping update."""
import yaml as pyyaml
from engine.api import Harness
from engine.symlib import pick, reset, wit, note, untraced, reraise_internal
from engine import docfam
from engine import refmodel as rm
from awesomeyaml.config import Config
from awesomeyaml import errors as ayerr

PROPERTY = {
    'id': 'C02',
    'technique': 'CrossHair exact decision-tree case analysis over bounded document sequences (selectors are symbolic ints decided by z3; "Confirmed over all paths" certifies that every sequence in the bound was executed), real Config.build vs. an independent fold over yaml.safe_load',
    'level_text': 'Solver-certified exhaustive case analysis: tag-free documents contain no data that can stay symbolic (container contents are realised by the C-level dict/list bases), so the symbolic variables are the selectors of shape, key variant and stage; z3/CrossHair certify that every combination within the bounds was executed against the real code and compared with the reference fold.  Weaker than the flag-symbolic harnesses (C03-C05), stated as such.',
    'assumptions': [
        'the document family below (shapes x key variants x scalar fill) is the bound; nothing outside it is claimed',
        'PyYAML parsing of concrete text is trusted; the oracle is engine/refmodel.update (recursive right-biased update from the statement)',
    ],
    'bounds': {'pairs': 'all ordered pairs (quick: every second first document) over Shapes(<=4 nodes, depth<=3) (84 shapes) x 4 key variants of the newer document (a/b, 0/1 = in-range list indices, 1/5 and 5/0 = out of range last / first)',
               'triples': 'all ordered triples over Shapes(<=3 nodes) (18 shapes) x 4 of the 16 key-variant combinations (quick) / all 16 (thorough) / Shapes(<=4, depth 2) sampled by stride (thorough)'},
    'outside': ['negative integer keys addressing list elements from the end', 'float/bool/null keys in later stages', 'anchors, aliases, block style'],
    'per_split_timeout': {'quick': 900, 'thorough': 2400},
    'wall_budget': {'quick': 1500, 'thorough': 7000},
}

KEYVARS = [{}, {'a': '0', 'b': '1'}, {'a': '1', 'b': '5'}, {'a': '5', 'b': '0'}]
FAM2 = docfam.shapes(4, 3)
FAM3 = docfam.shapes(3, 2)
FAM3T = docfam.shapes(4, 2)


def _text(fam, idx, kv, start):
    return docfam.render(docfam.fill_scalars(docfam.rename_keys_below(fam[idx], KEYVARS[kv]), start=start))


def same(a, b):
    if isinstance(b, dict):
        if not isinstance(a, dict) or len(a) != len(b):
            return False
        for kb, vb in b.items():
            hit = [ka for ka in a if type(ka) is type(kb) and ka == kb]
            if not hit or not same(a[hit[0]], vb):
                return False
        return True
    if isinstance(b, list):
        return type(a) is list and len(a) == len(b) and all(same(x, y) for x, y in zip(a, b))
    return type(a) is type(b) and a == b


def _check(texts):
    """concrete differential step (runs untraced: nothing symbolic can reach it)"""
    from engine import symlib
    symlib.LAST.clear()
    docs = [pyyaml.safe_load(t) for t in texts]
    exp_err = None
    expected = None
    try:
        acc = docs[0]
        for d in docs[1:]:
            acc = rm.update(acc, d)
        expected = acc
    except rm.RefMergeError:
        exp_err = 'MergeError'
    except rm.Unspecified:
        return None
    try:
        got = Config.build(*texts, raw_yaml=True)
    except ayerr.MergeError as e:
        note(texts=texts, error=repr(e)[:200], expected=repr(expected), exp_err=exp_err)
        wit('merge_error')
        return exp_err == 'MergeError'
    except Exception as e:
        note(texts=texts, error=repr(e)[:200], expected=repr(expected), exp_err=exp_err)
        return False
    ok = exp_err is None and same(got, expected)
    if not ok:
        note(texts=texts, got=repr(got), expected=repr(expected), exp_err=exp_err)
    return ok


def c02_pairs(split, j):
    reset()
    i = split['i']
    j = pick(j, len(FAM2))
    ok = True
    with untraced():
        for kv in range(len(KEYVARS)):      # concrete inner loop: key variants of the newer document
            texts = [_text(FAM2, i, 0, 0), _text(FAM2, j, kv, 5)]
            r = _check(texts)
            if r is None:
                wit('unspecified')
            else:
                wit('checked')
                if not r:
                    ok = False
                    break
    return ok


def c02_triples(split, j, kv, kv2):
    reset()
    fam = FAM3 if split['fam'] == 3 else FAM3T
    i = split['i']
    idx = split.get('idx')
    n = len(fam) if idx is None else len(idx)
    if j >= n:
        return True
    j = pick(j, n) if idx is None else idx[pick(j, n)]
    kv = pick(kv, len(KEYVARS))
    kv2 = pick(kv2, len(KEYVARS))
    if split.get('thin') and (kv + kv2) % 4 != 1:
        return True
    ok = True
    with untraced():
        for k in (range(n) if idx is None else idx):    # concrete inner loop: third stage
            texts = [_text(fam, i, 0, 0), _text(fam, j, kv, 4), _text(fam, k, kv2, 8)]
            r = _check(texts)
            if r is None:
                wit('unspecified')
            else:
                wit('checked')
                if not r:
                    ok = False
                    break
    return ok


def _splits_pairs(tier):
    if tier == 'quick':
        return [{'i': i} for i in range(0, len(FAM2), 2)]
    return [{'i': i} for i in range(len(FAM2))]


def _splits_triples(tier):
    if tier == 'quick':
        return [{'fam': 3, 'i': i, 'thin': True} for i in range(len(FAM3))]
    out = [{'fam': 3, 'i': i} for i in range(len(FAM3))]
    idx = list(range(0, len(FAM3T), 3))
    out += [{'fam': 4, 'i': i, 'idx': idx} for i in range(0, len(FAM3T), 2)]
    return out


def samples(tier):
    return [{'pair': [_text(FAM2, 7, 0, 0), _text(FAM2, 30, 1, 5)]}, {'triple': [_text(FAM3, 3, 0, 0), _text(FAM3, 9, 1, 4), _text(FAM3, 12, 2, 8)]}]


HARNESSES = {
    'c02_pairs': Harness('c02_pairs', c02_pairs, [('j', 'int', 0, len(FAM2) - 1)], _splits_pairs,
                         doc='all ordered pairs of tag-free documents of the family x key variants of the newer one', witnesses=('checked', 'merge_error')),
    'c02_triples': Harness('c02_triples', c02_triples,
                           [('j', 'int', 0, 71), ('kv', 'int', 0, len(KEYVARS) - 1), ('kv2', 'int', 0, len(KEYVARS) - 1)], _splits_triples,
                           pre='True', doc='all ordered triples (3 stages: in-place mutation of earlier results can leak)', witnesses=('checked',)),
}
