"""C18 - dump then parse gives a tree that merges and evaluates the same; second dump is a fixed point."""
from engine.api import Harness
from engine.symlib import pick, site, reset, wit, note, untraced, reraise_internal, same_dump
from engine import targets
import awesomeyaml.yaml as ayy
from awesomeyaml.builder import Builder
from awesomeyaml.eval_context import EvalContext
from awesomeyaml.nodes.node import ConfigNode
from awesomeyaml.nodes.composed import ComposedNode

PROPERTY = {
    'id': 'C18',
    'technique': 'CrossHair symbolic execution of the real representer (_node_representer flag elision, tag selection), PyYAML emit/scan/parse of the produced text and the real constructors; merge-control flags at two nested tag sites are symbolic and stay symbolic through the metadata codec stub in both directions; node-wise observational comparison + probe merges + fixed point of the second dump',
    'assumptions': [
        'metadata codec stub in both directions (tokens instead of pickle hex) so that flags stay symbolic; native replays use the real pickle codec',
        'documents are parsed through Builder.add_source (source-level safety True), as Config.build does',
        'observational equality = for every node: kind, value, effective priority/delete/allow_new/safe, the explicit remove-this-key marker on empty nodes, the flags a container hands to children attached later, user metadata; plus equal results of probe merges in which the document is substituted',
    ],
    'bounds': {'shapes': '13 two-site shapes (three with tagged scalars that need quoting/escaping or are special floats) (one holding quoted strings that look like f-strings, numbers, null, booleans, tags) (mapping/list/scalar/null/value-less/empty container/function node below mapping/list/function node) + 25 node kinds of the tag vocabulary (incl. function nodes with out-of-order integer keys, list-form and mixed arguments) below a flagged mapping',
               'flags per site': 'one of the pairs (priority, delete), (allow_new, safe), (delete, allow_new), (priority, safe), each flag absent or any value - symbolic', 'user metadata': 'present on the inner site (symbolic presence)'},
    'outside': ['explicit safe=True below an unsafe ancestor (no !safe tag exists in the loader)', 'documents evaluated from unsafe sources', 'anchors/aliases, comments, styles'],
    'per_split_timeout': {'quick': 600, 'thorough': 1800},
    'wall_budget': {'quick': 1500, 'thorough': 7000},
}

SHAPES = [
    'a: %(A)s {b: %(B)s [1, [2]], c: 3}',
    'a: %(A)s [%(B)s {b: 1}, 5]',
    'a: %(A)s {b: %(B)s {c: []}}',
    'a: %(A)s [%(B)s null, 1]',
    'a: %(A)s {b: %(B)s , c: 1}',
    'a: %(A)s {b: %(B)s 5, c: [7]}',
    'a: %(A)s [%(B)s [], {}]',
    'a: %(A)s {b: %(B)s {}}',
    'a: %(A)s {b: {c: %(B)s [1]}, d: [2]}',
    # quoted strings whose text looks like something else must come back as the same strings
    'a: %(A)s [%(B)s "f\'{c}\'", "123", "null", "~", "true", "!xref a", "1e3", " padded "]',
    # tagged scalars whose text needs care when written: line breaks, backslashes, both quote characters, special floats
    'a: %(A)s {b: %(B)s "x\\ny\\n", c: %(B)s "b\\\\s\\t."}',
    'a: %(A)s {b: %(B)s "it\'s \\"q\\"", c: %(B)s "\\u00e9 # : x"}',
    'a: %(A)s {b: %(B)s .inf, c: %(B)s 1.0e+16, d: %(B)s -0.5}',
]
KINDS = [
    "!xref a.c", "!eval 'a'", "f'{a}'", "!import math.pi", "!path [x]", "!path:parent(1) [x]", "!required ", "!clear ",
    "!append [1]", "!extend [2]", "!prev a.c", "!call:engine.targets.f {x: 1}", "!bind:engine.targets.g {y: [1]}", "!call engine.targets.f",
    # positional arguments: out-of-order integer keys, list form, mixed positional / keyword
    "!call:engine.targets.pos2 {1: t, 0: h}", "!bind:engine.targets.pos3 {2: z, 0: x, 1: y}", "!call:engine.targets.f [p, q]", "!call:engine.targets.mixed {1: 1, k: 2, 0: 0}",
    # user metadata written with the {{..}} syntax on dynamic / structural kinds, lazily included files
    "!path{{'note': 1}} [x]", "!path:{{'note': 1}} [x]", "!path:cwd{{'note': 1}} x", "!xref{{'note': 1}} a.c", "!call:engine.targets.f{{'note': 1}} {x: 1}", "!rec x.yaml", "!rec [x.yaml, y.yaml]",
]
PAIRS = {'pd': ('priority', 'delete'), 'ns': ('allow_new', 'safe'), 'dn': ('delete', 'allow_new'), 'ps': ('priority', 'safe')}


def _flags(pair, p1, v1, p2, v2, pv):
    out = {}
    k1, k2 = PAIRS[pair]
    for k, present, val in ((k1, p1, v1), (k2, p2, v2)):
        if not present:
            continue
        if k == 'priority':
            out[k] = pv
        elif k == 'safe':
            out[k] = False if val else None      # only !unsafe (or nothing) can be written
            if out[k] is None:
                del out[k]
        else:
            out[k] = val
    return out


def _parse(text):
    b = Builder()
    b.add_source(text, raw_yaml=True)
    return b.stages[0]


def describe(node):
    """observable description of a document, node by node"""
    out = []
    items = [('', node)] + [(str(p), n) for p, n in node.ayns.nodes_with_paths()] if isinstance(node, ComposedNode) else [('', node)]
    for p, n in items:
        kind = type(n).__name__
        if kind == 'FStrNode':
            kind = 'EvalNode'      # an f-string is written as the equivalent !eval (same value, same merge behaviour)
        val = None
        if not isinstance(n, ComposedNode):
            val = n.ayns.native_value if hasattr(n, '_dyn_base') else repr(getattr(n, 'filenames', None))
        extra = (getattr(n, '_func', None), getattr(n, 'ref_point', None))
        kw = None
        if isinstance(n, ComposedNode):
            kw = n._get_child_kwargs()
            # allow_new only constrains nodes of the document itself (checked when they are inserted), so only the effective
            # value matters; the replace/merge mode and the safety handed to children attached later do matter
            kw = (kw.get('implicit_delete'), kw.get('implicit_safe'))
        out.append((p, kind, val, extra, n.ayns.priority, n.ayns.delete, n.ayns.allow_new, n.ayns.safe,
                    bool(n.ayns.explicit_delete) if not n else None, dict(n.ayns.metadata), kw))
    return out


def _probe(doc_node_text_or_node):
    pass


def _merge_eval(stages_text, mid):
    """older <- X <- newer with X given as a parsed stage (node)"""
    b = Builder()
    b.add_source(stages_text[0], raw_yaml=True)
    b.stages.append(mid)
    b.add_source(stages_text[1], raw_yaml=True)
    try:
        root = b.build()
        return ('ok', root.ayns.native_value if not isinstance(root, dict) else _plain(root))
    except Exception as e:
        reraise_internal(e)
        return ('err', type(e).__name__)


def _plain(n):
    if isinstance(n, dict):
        return {(_plain(k)): _plain(v) for k, v in n.items()} | ({'__func': n._func} if hasattr(n, '_func') else {})
    if isinstance(n, (list, tuple)):
        return [_plain(v) for v in n]
    if isinstance(n, ConfigNode):
        return n.ayns.native_value if hasattr(n, '_dyn_base') else type(n).__name__
    return n


PROBES = [
    ('a: {b: [8, 9, 10], c: 0, z: 1}', 'a: {b: {0: 4}, n: 5}'),
    ('a: [{b: 2, q: 3}, 6, 7]', 'a: {0: {nn: 1}}'),
    ('q: 1', 'a: !del '),
]


def c18_roundtrip(split, pa1, va1, pa2, va2, pva, pb1, vb1, pb2, vb2, pvb, mdb):
    reset()
    fa = _flags(split['pairA'], pa1, va1, pa2, va2, pva)
    fb = _flags(split['pairB'], pb1, vb1, pb2, vb2, pvb)
    md = {'note': 'x'} if mdb else None
    A = site('A', fa) if fa else ''
    B = site('B', fb, md) if (fb or md) else ''
    if 'kind' in split:
        text = 'a: %s\n  b: %s\n  c: 3\n' % (A, KINDS[split['kind']])
    else:
        text = SHAPES[split['shape']] % {'A': A, 'B': B} + '\n'
    note(text=text)
    try:
        orig = _parse(text)
    except Exception as e:
        reraise_internal(e)
        note(unparsed=repr(e)[:200])
        wit('unparsed')
        return True          # not a parsed document: nothing to round-trip
    try:
        d0 = describe(orig)
        out1 = ayy.dump(orig)
        back = _parse(out1)
        d1 = describe(back)
        out2 = ayy.dump(back)
    except Exception as e:
        reraise_internal(e)
        note(error=repr(e)[:300])
        return False
    note(dump=out1)
    if d0 != d1:
        for x, y in zip(d0, d1):
            if x != y:
                note(differs_at=repr(x[0]), original=repr(x), reparsed=repr(y))
                break
        else:
            note(differs='length %d vs %d' % (len(d0), len(d1)))
        return False
    wit('described')
    if not same_dump(out1, out2):
        note(second_dump=out2)
        return False
    # substituted into probe merge sequences both documents must behave the same
    for older, newer in PROBES[:split.get('probes', 2)]:
        r0 = _merge_eval((older, newer), _parse(text))
        r1 = _merge_eval((older, newer), _parse(out1))
        if r0 != r1:
            note(probe=(older, newer), with_original=repr(r0), with_reparsed=repr(r1))
            return False
    wit('probed')
    return True


def _splits(tier):
    out = []
    pairs = ['pd', 'ns', 'dn', 'ps']
    if tier == 'quick':
        combos = {0: [('pd', 'pd')], 1: [('ns', 'dn')], 2: [('dn', 'pd')], 3: [('pd', 'ps')],
                  4: [('pd', 'pd')], 6: [('dn', 'dn')], 8: [('dn', 'ns')], 9: [('pd', 'ns')],
                  10: [('pd', 'pd')], 11: [('ns', 'dn')], 12: [('pd', 'ps')]}
        for sh, cs in combos.items():
            for pa, pb in cs:
                for bits in range(8):
                    pre = ' and '.join(('' if bits & (1 << i) else 'not ') + v for i, v in enumerate(('pa1', 'pa2', 'pb1')))
                    out.append({'shape': sh, 'pairA': pa, 'pairB': pb, 'probes': 1, '_pre': pre + (' and not mdb' if not (sh == 0 and bits in (0, 4)) else '')})
        for k in range(len(KINDS)):
            out.append({'kind': k, 'pairA': ['pd', 'ns'][k % 2], 'pairB': 'pd', 'probes': 1, '_pre': 'not pb1 and not pb2 and not mdb'})
        return out
    for sh in range(len(SHAPES)):
        for pa, pb in (('pd', 'pd'), ('ns', 'dn'), ('dn', 'ps'), ('ps', 'ns'), ('pd', 'ns'), ('dn', 'pd')):
            if True:
                for bits in range(4):
                    pre = ' and '.join(('' if bits & (1 << i) else 'not ') + v for i, v in enumerate(('pa1', 'pb1')))
                    out.append({'shape': sh, 'pairA': pa, 'pairB': pb, 'probes': 2, '_pre': pre})
    for k in range(len(KINDS)):
        for pa in pairs:
            out.append({'kind': k, 'pairA': pa, 'pairB': 'pd', 'probes': 1, '_pre': 'not pb1 and not pb2 and not mdb'})
    return out


PARAMS = [('pa1', 'bool'), ('va1', 'bool'), ('pa2', 'bool'), ('va2', 'bool'), ('pva', 'int', -1, 1),
          ('pb1', 'bool'), ('vb1', 'bool'), ('pb2', 'bool'), ('vb2', 'bool'), ('pvb', 'int', -1, 1), ('mdb', 'bool')]

HARNESSES = {
    'c18_roundtrip': Harness('c18_roundtrip', c18_roundtrip, PARAMS, _splits,
                             doc='parse -> dump -> parse -> dump with symbolic flags at two nested sites; node-wise observational equality, fixed point, probe merges',
                             witnesses=('described', 'probed')),
}
