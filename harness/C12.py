"""C12 - !eval and f-strings compute what Python computes, with config names visible; no state between builds."""
import builtins
from engine.api import Harness
from engine.symlib import pick, reset, wit, note, untraced, reraise_internal
from awesomeyaml.builder import Builder
from awesomeyaml.config import Config
from awesomeyaml.eval_context import EvalContext
from awesomeyaml import errors as ayerr

PROPERTY = {
    'id': 'C12',
    'technique': 'CrossHair symbolic execution of EvalNode.on_evaluate_impl / name resolution (NamesFallback, GlobalsWrapper, eval symbols) together with the user program itself: eval symbols are symbolic ints that flow through the exec/eval of the program, so both arms of every data-dependent branch of the program are explored and compared on the same path with a native exec/eval oracle in a plain namespace laid out in the documented order',
    'assumptions': [
        'config entries are concrete markers (scalar nodes realise their value); the symbolic data are the eval symbols (ints in -3..3) and what the programs compute from them',
        'oracle: plain dict namespace = config values, overridden by symbols; exec of all lines but the last, eval of the last line - same interpreter, same path',
        'on CPython >= 3.11 names are resolved through the builtins fallback (see the fix: commit in /repo); the bytecode rewriter is only used on older interpreters and is therefore not encoded here (the instruction-stream harness of DESIGN 5/C12 group 2 is not applicable on the interpreter in use)',
    ],
    'bounds': {'programs': '30 templates: expressions, conditional expression/statement, lambda, nested def + closure, list/dict/set comprehension, generator, for/while with break/continue, try/except/else/finally, with, class body, import, global, walrus, star-unpacking, own definition shadowing a config name, symbol shadowing a config name, config name shadowing a builtin, f-string forms, 300-name program and 400-statement program (extended arguments), user exceptions',
               'symbols': '2 symbolic ints in -3..3', 'file name': 'with and without a source file name',
               'histories': '2..3 builds in one process with different config values / symbols; multi-line (persistently registered) code'},
    'outside': ['programs outside the templates', 'float/str symbolic data', 'other CPython versions', "code using ';' (split naively by the implementation: documented quirk)"],
    'per_split_timeout': {'quick': 600, 'thorough': 1800},
    'wall_budget': {'quick': 1500, 'thorough': 7000},
}

CONFIG = 'a: 3\nb: 5\nzero: 0\nlst: [1, 5, 7]\nabs: 42\nnest: {k: [2, 4]}\n'
CONFIG_VALUES = {'a': 3, 'b': 5, 'zero': 0, 'lst': [1, 5, 7], 'abs': 42, 'nest': {'k': [2, 4]}}

PROGRAMS = [
    'a + s + t',
    'len(lst) + max(a, s) * min(b, t)',
    's if s > t else a',
    '(lambda x: x + a - t)(s)',
    'def f(x):\n    def g(y):\n        return y + a + x * t\n    return g(s)\nf(1)',
    '[x * s for x in lst if x > t + 2]',
    '{k: a + s for k in lst if k != t + 5}',
    '{x % 3 for x in lst if x > s}',
    'sum(x + a for x in lst if x != s)',
    'try:\n    r = a // s\nexcept ZeroDivisionError:\n    r = b + t\nr',
    'try:\n    r = lst[s]\nexcept IndexError:\n    r = -1\nelse:\n    r = r + t\nfinally:\n    q = 1\nr + q',
    'import contextlib\nr = a\nwith contextlib.suppress(KeyError):\n    r = {0: b}[s]\n    r = r + t\nr',
    'r = 0\nfor i in lst:\n    if i == s + 4:\n        continue\n    if i > t + 5:\n        break\n    r += i * a\nr',
    'r = 0\ni = 0\nwhile i < s:\n    i += 1\n    r += b + t\nr',
    'class C:\n    v = a + s\n    def m(self):\n        return self.v * t + b\nC().m()',
    'import functools\nfunctools.reduce(lambda x, y: x + y * t, lst, s) + a',
    'a = s * 2\na + t',
    'b + s',
    'abs + s + t',
    'def mk():\n    return lambda: a * s + t\nmk()()',
    '(n := a + s) + n * t',
    'def f():\n    global zz\n    zz = a + s\nf()\nzz + t',
    '[*lst, s, *[t]]',
    'ayns.cfg.a + s + t',
    'nest["k"][s % 2] + t',
    'x = []\nfor i in range(3):\n    if i < s:\n        x.append(i + a)\n    elif i == t:\n        x.append(-i)\n    else:\n        x.append(b)\nx',
    'raise_ = 1\n1 // (s - s) if t > 0 else a',
    'def rec(n):\n    return 1 if n <= 0 else n * rec(n - 1) + zero\nrec(s + 3) + t',
    'sorted(lst, key=lambda v: -v if s > 0 else v)[0] + t',
    'd = dict(p=a, q=s)\nd["q"] * t + d["p"]',
]
FSTRINGS = ["f'{a}-{s}'", "f'{a + s}:{lst[1]}'", "f'{s if s > t else a}!'", "f'{nest[\"k\"][0] + t}'"]


def long_names_program(n):
    lines = ['x%d = %d' % (i, i) for i in range(n)]
    lines.append(' + '.join('x%d' % i for i in range(0, n, 7)) + ' + a + s')
    return '\n'.join(lines)


def long_jump_program(n):
    lines = ['r = 0', 'if s > 0:']
    lines += ['    r += a + %d' % i for i in range(n)]
    lines += ['else:'] + ['    r -= b + %d' % i for i in range(n)]
    lines.append('r + t')
    return '\n'.join(lines)


def yaml_eval(code):
    if '\n' in code:
        return '!eval |\n' + ''.join('    ' + l + '\n' for l in code.split('\n'))
    return '!eval "' + code.replace('\\', '\\\\').replace('"', '\\"') + '"\n'


def oracle(code, config_values, symbols):
    ns = {}                      # a literal: dict(...) would be intercepted by the tracer and exec() needs a real dict
    ns.update(config_values)
    ns.update(symbols)
    from awesomeyaml.utils import Bunch
    ns['ayns'] = Bunch({'cfg': Bunch(config_values)})
    lines = code.strip().split('\n')
    try:
        exec(compile('\n'.join(lines[:-1]), '<oracle>', 'exec'), ns)
        return ('ok', eval(compile(lines[-1].strip(), '<oracle>', 'eval'), ns))
    except Exception as e:
        reraise_internal(e)
        return ('exc', type(e).__name__)


def run_impl(doc, symbols, filename):
    try:
        b = Builder()
        b.add_source(doc, raw_yaml=True, filename=filename)
        cfg = Config(b.build(), eval_ctx=EvalContext(eval_symbols=dict(symbols)))
        return ('ok', cfg['r'])
    except ayerr.EvalError as e:
        reraise_internal(e)
        c = e.__cause__
        return ('exc', type(c).__name__ if c is not None else 'EvalError-without-cause')
    except Exception as e:
        reraise_internal(e)
        return ('unexpected', repr(e)[:200])


def c12_program(split, s, t, fn):
    reset()
    k = split['program']
    if k == 'names':
        code = long_names_program(300)
    elif k == 'jump':
        code = long_jump_program(200)
    elif isinstance(k, str) and k.startswith('f'):
        code = FSTRINGS[int(k[1:])]
    else:
        code = PROGRAMS[k]
    symbols = {'s': s, 't': t, 'b': 1000 if k == 17 else None}
    if symbols['b'] is None:
        del symbols['b']
    fstr = isinstance(k, str) and k.startswith('f')
    doc = CONFIG + 'r: ' + (code + '\n' if fstr else yaml_eval(code))
    filename = '/proj/cfg.yaml' if fn else None
    note(doc=doc, filename=filename)
    exp = oracle(code, CONFIG_VALUES, symbols)
    got = run_impl(doc, symbols, filename)
    note(expected=repr(exp)[:300], got=repr(got)[:300])
    if got[0] == 'unexpected':
        return False
    wit('ran' if got[0] == 'ok' else 'raised')
    if exp[0] != got[0]:
        return False
    if exp[0] == 'exc':
        return exp[1] == got[1]
    return got[1] == exp[1] and type(got[1]) is type(exp[1])


def c12_history(split, s1, s2, s3, order):
    """k-th build of the same multi-line program at the same path, with other config values / symbols, equals its own oracle"""
    reset()
    code = split['code']
    cfgs = [{'a': 3, 'b': 5}, {'a': 10, 'b': 20}, {'a': -1, 'b': 0}]
    syms = [{'s': s1}, {'s': s2, 'extra': 1}, {'s': s3}]
    order = pick(order, 3)
    seq = [[0, 1, 2], [2, 0, 1], [1, 1, 0]][order]
    n = split['n']
    for step, i in enumerate(seq[:n]):
        cv = cfgs[i]
        doc = 'a: %d\nb: %d\nr: %s' % (cv['a'], cv['b'], yaml_eval(code))
        sym = dict(syms[i])
        if split.get('symbols_vanish') and step > 0:
            sym.pop('extra', None)
        exp = oracle(code, cv, sym)
        got = run_impl(doc, sym, '/proj/h.yaml' if split.get('fn') else None)
        if exp[0] != got[0] or exp[1] != got[1]:
            note(step=step, doc=doc, expected=repr(exp)[:200], got=repr(got)[:200])
            return False
        wit('step')
    return True


CROSS = [
    # (code of node `mk`, code of node `r` that uses the callable produced by `mk` after `mk` finished evaluating)
    ('def mk(n):\n    return lambda x: x * a + n + s\nmk', 'mk(2)(5) + t'),
    ('def mk(n):\n    def inner(x):\n        return [x + b + i for i in range(n) if i != s]\n    return inner\nmk', 'mk(3)(t)'),
    ('def mk(n):\n    class K:\n        v = a + n\n    return K\nmk', 'mk(s).v + t'),
    ('lambda x: x + a + s', 'mk(t) * 2'),
]


def c12_cross(split, s, t, first):
    """a callable defined by one !eval node is used by another node after its defining node finished evaluating"""
    reset()
    c1, c2 = CROSS[split['k']]
    symbols = {'s': s, 't': t}
    body = ['mk: ' + yaml_eval(c1), 'r: ' + yaml_eval(c2)]
    if first:
        body.reverse()
    doc = 'a: 3\nb: 5\n' + ''.join(body)
    note(doc=doc)
    cv = {'a': 3, 'b': 5}
    e1 = oracle(c1, cv, symbols)
    if e1[0] != 'ok':
        return False
    cv2 = {'a': 3, 'b': 5, 'mk': e1[1]}
    exp = oracle(c2, cv2, symbols)
    got = run_impl(doc, symbols, None)
    note(expected=repr(exp)[:200], got=repr(got)[:200])
    wit('ran' if got[0] == 'ok' else 'raised')
    return exp[0] == got[0] and exp[1] == got[1]


HIST_CODES = [
    'x = a + s\nx * 10 + b',
    'def f(v):\n    return v + a\nf(s) + ayns.cfg.b',
    'acc = []\nacc.append(a)\nacc.append(s)\nacc',
    'try:\n    v = extra\nexcept NameError:\n    v = -100\nv + s',
    'a + s',
]


def _splits_prog(tier):
    out = []
    ks = list(range(len(PROGRAMS))) + ['f%d' % i for i in range(len(FSTRINGS))] + ['names', 'jump']
    for k in ks:
        out.append({'program': k, '_pre': 'True' if tier != 'quick' else ('fn' if (isinstance(k, int) and k % 2) else 'not fn')})
    return out


def _splits_hist(tier):
    out = []
    for ci, code in enumerate(HIST_CODES):
        out.append({'code': code, 'n': 2 if tier == 'quick' else 3, 'fn': ci % 2 == 0, 'symbols_vanish': ci == 3})
    return out


HARNESSES = {
    'c12_program': Harness('c12_program', c12_program, [('s', 'int', -3, 3), ('t', 'int', -3, 3), ('fn', 'bool')], _splits_prog,
                           doc='program templates executed through !eval / f-string nodes with symbolic eval symbols vs native exec/eval in a plain namespace',
                           witnesses=('ran',), per_path_timeout=60),
    'c12_cross': Harness('c12_cross', c12_cross, [('s', 'int', -3, 3), ('t', 'int', -3, 3), ('first', 'bool')],
                         lambda tier: [{'k': k} for k in range(len(CROSS))],
                         doc='callables produced by one !eval node and invoked from another node (nested def / lambda / class body created at call time)', witnesses=('ran',)),
    'c12_history': Harness('c12_history', c12_history, [('s1', 'int', -2, 2), ('s2', 'int', -2, 2), ('s3', 'int', -2, 2), ('order', 'int', 0, 2)], _splits_hist,
                           doc='2..3 builds in one process of the same code at the same path with different configs and symbols', witnesses=('step',)),
}
