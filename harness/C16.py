"""C16 - !append / !extend / !prev move and grow existing content without loss."""
import copy
from engine.api import Harness
from engine.symlib import pick, reset, wit, note, untraced, reraise_internal
from awesomeyaml.builder import Builder
from awesomeyaml.eval_context import EvalContext
from awesomeyaml import errors as ayerr

PROPERTY = {
    'id': 'C16',
    'technique': 'CrossHair symbolic execution of the premerge operators (AppendNode/ExtendNode/PrevNode.on_premerge_impl, remove_node/get_node) and the following merge; operator kinds, their order, the appended length and the staging are symbolic selectors decided by z3; oracle = the statement applied to a plain Python model incl. the frame condition',
    'assumptions': ['list elements are distinct markers (one nested mapping)'],
    'bounds': {'base': 'fixed 5-key config; the top-level list key is one of lst / batch-sizes / a.b (the last two are not identifier-like; a.b coexists with a: {b: ..})',
               'operators': '13 (append/extend on top-level, nested, missing, scalar, mapping targets; prev of a top-level list, of a nested path, into a nested position, of a missing path, of a list element)',
               'sequences': '1 operator, or 2 operators in one stage / in two consecutive stages (symbolic)', 'appended length': '0..2'},
    'outside': ['operators below list indices other than prev of an element', 'more than 2 operators'],
    'per_split_timeout': {'quick': 600, 'thorough': 1800},
    'wall_budget': {'quick': 1500, 'thorough': 7000},
}

KEYS = ['lst', 'batch-sizes', 'a.b']
NOPS = 15


class Err(Exception):
    pass


def base_model(K):
    return {K: [1, 2], 'a': {'b': [9], 'c': 0}, 'm': {'inner': [3, {'x': 4}], 'other': 5}, 'sc': 7, 'd': {'k': 1}}


def base_text(K):
    return "'%s': [1, 2]\na: {b: [9], c: 0}\nm: {inner: [3, {x: 4}], other: 5}\nsc: 7\nd: {k: 1}\n" % K


def op_text(op, K, L):
    """returns (top-level key, yaml value text)"""
    lt = '[' + ', '.join(L) + ']'
    return {
        0: ("'%s'" % K, '!append ' + lt), 1: ("'%s'" % K, '!extend ' + lt),
        2: ('m', '{inner: !append %s}' % lt), 3: ('m', '{inner: !extend %s}' % lt),
        4: ('zz', '!append ' + lt), 5: ('zz', '!extend ' + lt),
        6: ('sc', '!append ' + lt), 7: ('sc', '!extend ' + lt),
        8: ('d', '!extend ' + lt),
        9: ('q', "!prev '%s'" % K if K == 'lst' else "!prev zz"), 10: ('q', "!prev 'm.inner'"),
        11: ('m', '{moved: !prev d}'), 12: ('q2', '!prev zz'), 13: ('q3', "!prev 'm.inner[1]'"), 14: ('q4', "!prev 'm.inner[0]'"),
    }[op]


def apply(model, op, K, Lv):
    m = copy.deepcopy(model)
    if op in (0, 1):
        if isinstance(m.get(K), list):
            m[K] = m[K] + Lv
        elif op == 0:
            raise Err()
        else:
            m[K] = list(Lv)
    elif op in (2, 3):
        cur = m.get('m', {}).get('inner') if isinstance(m.get('m'), dict) else None
        if isinstance(cur, list):
            m['m']['inner'] = cur + Lv
        elif op == 2:
            raise Err()
        else:
            m['m']['inner'] = list(Lv)
    elif op in (4, 5):
        if 'zz' in m and isinstance(m['zz'], list):
            m['zz'] = m['zz'] + Lv
        elif op == 4:
            raise Err()
        else:
            m['zz'] = list(Lv)
    elif op in (6, 7):
        if isinstance(m.get('sc'), list):
            m['sc'] = m['sc'] + Lv
        elif op == 6:
            raise Err()
        else:
            m['sc'] = list(Lv)
    elif op == 8:
        if isinstance(m.get('d'), list):
            m['d'] = m['d'] + Lv
        else:
            m['d'] = list(Lv)
    elif op == 9:
        src = K if K == 'lst' else 'zz'     # textual paths cannot spell keys outside [A-Za-z0-9_]+ (outside the claim)
        if src not in m:
            raise Err()
        m['q'] = m.pop(src)
    elif op == 10:
        if not isinstance(m.get('m'), dict) or 'inner' not in m['m']:
            raise Err()
        m['q'] = m['m'].pop('inner')
    elif op == 11:
        if 'd' not in m:
            raise Err()
        v = m.pop('d')
        m['m']['moved'] = v
    elif op == 12:
        if 'zz' not in m:
            raise Err()
        m['q2'] = m.pop('zz')
    elif op == 13:
        inner = m.get('m', {}).get('inner') if isinstance(m.get('m'), dict) else None
        if not isinstance(inner, list) or len(inner) < 2:
            raise Err()
        m['q3'] = inner.pop(1)
    elif op == 14:
        inner = m.get('m', {}).get('inner') if isinstance(m.get('m'), dict) else None
        if not isinstance(inner, list) or len(inner) < 1:
            raise Err()
        m['q4'] = inner.pop(0)            # a NON-last element: what is moved must be the element itself, not the list's last one
    return m


def c16_ops(split, op1, op2, n, same_stage, two):
    reset()
    K = KEYS[split['key']]
    op1 = pick(op1, NOPS)
    n = pick(n, 3)
    L = ['100', '{y: 101}'][:n]
    Lv = [100, {'y': 101}][:n]
    ops = [op1]
    if two:
        op2 = pick(op2, NOPS)
        ops.append(op2)
    k1, v1 = op_text(op1, K, L)
    docs = [base_text(K)]
    if two:
        k2, v2 = op_text(op2, K, L)
        if same_stage:
            if k1 == k2:
                return True        # one key cannot carry two operators in one document
            docs.append('%s: %s\n%s: %s\n' % (k1, v1, k2, v2))
        else:
            docs.append('%s: %s\n' % (k1, v1))
            docs.append('%s: %s\n' % (k2, v2))
    else:
        docs.append('%s: %s\n' % (k1, v1))
    note(docs=docs, ops=ops)
    exp = base_model(K)
    exp_err = False
    try:
        for o in ops:
            exp = apply(exp, o, K, Lv)
    except Err:
        exp_err = True
    if two and same_stage and not exp_err:
        # within one document both operators see the SAME previous config (premerge of the whole stage happens before merging)
        try:
            e1 = apply(base_model(K), ops[0], K, Lv)
            e2 = apply(base_model(K), ops[1], K, Lv)
            commute = apply(e1, ops[1], K, Lv) == apply(e2, ops[0], K, Lv)
        except Err:
            commute = False
        touched = {0: ['K'], 1: ['K'], 2: ['m.inner'], 3: ['m.inner'], 4: ['zz'], 5: ['zz'], 6: ['sc'], 7: ['sc'], 8: ['d'], 9: ['K', 'q'],
                   10: ['m.inner', 'q'], 11: ['d', 'm.moved'], 12: ['zz', 'q2'], 13: ['m.inner', 'q3'], 14: ['m.inner', 'q4']}
        if set(touched[ops[0]]) & set(touched[ops[1]]):
            commute = False      # both operators of one document address the same previous subtree: order not stated
        if not commute:
            wit('order_dependent')
            return True       # operators that interfere within one stage: the statement does not order them
    note(expected=repr(exp), exp_err=exp_err)
    try:
        b = Builder()
        b.add_multiple_sources(*docs, raw_yaml=True)
        got = EvalContext().evaluate(b.build())
    except ayerr.PremergeError as e:
        reraise_internal(e)
        note(error=repr(e)[:200])
        wit('premerge_error')
        return exp_err
    except Exception as e:
        reraise_internal(e)
        note(error='unexpected ' + repr(e)[:300])
        return False
    note(got=repr(got))
    if exp_err:
        return False
    wit('built')
    return got == exp and type(got.get(K, [])) in (list,) + ((type(None),) if K not in got else ())


def _splits(tier):
    out = []
    for key in range(len(KEYS)):
        out.append({'key': key, '_pre': 'not two'})
        for o in range(NOPS):
            if tier == 'quick' and (key != 0 and o not in (0, 1, 9, 14)):
                continue
            out.append({'key': key, '_pre': 'two and op1 == %d' % o})
    return out


HARNESSES = {
    'c16_ops': Harness('c16_ops', c16_ops,
                       [('op1', 'int', 0, NOPS - 1), ('op2', 'int', 0, NOPS - 1), ('n', 'int', 0, 2), ('same_stage', 'bool'), ('two', 'bool')],
                       _splits, pre='(two or (op2 == 0 and not same_stage))',
                       doc='1..2 premerge operators (symbolic kind/length/staging) on a fixed base with 3 spellings of the list key', witnesses=('built', 'premerge_error')),
}
