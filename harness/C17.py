"""C17 - node containers stay consistent (dict/list view == child-map view) under API operations."""
from engine.api import Harness
from engine.symlib import pick, reset, wit, note, untraced, reraise_internal, known
from awesomeyaml.nodes.node import ConfigNode
from awesomeyaml.nodes.list import ConfigList
from awesomeyaml.nodes.dict import ConfigDict
from awesomeyaml.nodes.composed import ComposedNode
from awesomeyaml.nodes.node_path import NodePath
from awesomeyaml.eval_context import EvalContext

PROPERTY = {
    'id': 'C17',
    'technique': 'CrossHair symbolic execution of the real ConfigList/ConfigDict mutators as an inductive step: start state = any container of bounded size (it satisfies the representation invariant), ONE operation with a symbolic index (in range, out of range, negative) and a nested value, then invariant + differential check against the builtin list/dict semantics; z3 decides the index arithmetic on every path',
    'assumptions': [
        'the representation invariant (same entries, same order, same identity in the child map and in the builtin storage; every entry a node; list children named 0..n-1; get_node(path) is node for every walked node) characterises reachable states of a given size, so one step from every such state covers operation histories of any length whose sizes stay within the bound; 2-step sequences are run as a cross-check',
        'element values are distinct concrete markers plus one nested list and one nested mapping; duplicates are included as separate start-state variants: equal neighbours held by distinct node objects, and ONE node object held at several positions (repeated raw values through the constructor, extend(self))',
    ],
    'bounds': {'list length': '0..3 (quick) / 0..5 (thorough); 2-step sequences 0..2 / 0..4', 'index': '-7..7 symbolic (single step); -3..3 concretised by selectors for 2-step sequences', 'dict keys': "{'a','b','_u',1,'c'} plus 'items' (a dict method name: adding it must be refused and leave both views unchanged)", 'ops': 'setitem delitem insert append extend remove pop clear set_child remove_child rename_child update setdefault attribute set/del',
               'path text': 'components: ints from {-12,-1,0,1,7,12}, 7 names over {a, Z, _, 0} of length <= 2, <= 3 components'},
    'outside': ['operations not listed in the property (sort, reverse, +=, *=, copy, slices, popitem)', 'names outside [A-Za-z0-9_]+ and float/bool keys in textual paths'],
    'per_split_timeout': {'quick': 600, 'thorough': 1800},
    'wall_budget': {'quick': 1500, 'thorough': 7000},
}

LIST_OPS = ['setitem', 'delitem', 'insert', 'append', 'extend', 'remove', 'pop', 'pop_default', 'clear', 'set_child', 'remove_child', 'getitem', 'rename_child']
DICT_OPS = ['setitem', 'delitem', 'setattr', 'delattr', 'update', 'setdefault', 'pop', 'clear', 'set_child', 'remove_child', 'rename_child', 'getitem']
KEYS = ['a', 'b', '_u', 1, 'c', 'items']      # 'items' names a dict method: adding it is refused by design (ValueError), nothing may change
RESERVED = ('items',)


def _elems(n, variant):
    """concrete start content; variant 1 has equal neighbours, variant 2 nested containers"""
    base = [10, 11, 12, 13, 14, 15][:n]
    if variant == 1 and n >= 2:
        # equal neighbours as DISTINCT node objects (a plain [10, 10] would be one shared node through the ids memo)
        base = [ConfigNode(v) for v in [10, 10, 12, 12, 10, 10][:n]]
    if variant == 3:
        # ONE node object at several positions (what the ids memo makes of repeated raw values)
        base = [10, 10, 12, 10, 12, 10][:n]
    if variant == 2:
        base = [[1, 2], {'k': 3}, 12, [[4]], {'m': {'n': 5}}, 15][:n]
    return base


def _value(vk):
    return [99, [7, 8], {'k': 1}, 10][vk]      # 10 equals an existing element: overwrite-with-equal-value


def _plain(x):
    if isinstance(x, dict):
        return {(_plain(k)): _plain(v) for k, v in x.items()}
    if isinstance(x, (list, tuple)):
        return [_plain(v) for v in x]
    if isinstance(x, ConfigNode):
        return x.ayns.native_value if not isinstance(x, ComposedNode) else _plain(x)
    return x


def invariant(node):
    """representation invariant of a container node, recursively; returns a reason string or None"""
    if not isinstance(node, ComposedNode):
        return None
    kids = list(node._children.items())
    if isinstance(node, list):
        items = list(list.__iter__(node))
        if [k for k, _ in kids] != list(range(len(items))):
            return 'list child names %r != 0..%d' % ([k for k, _ in kids], len(items) - 1)
        if len(kids) != len(items) or any(a is not b for (_, a), b in zip(kids, items)):
            return 'list storage and child map differ'
    elif isinstance(node, dict):
        ditems = list(dict.items(node))
        if len(ditems) != len(kids):
            return 'dict storage has %d entries, child map %d' % (len(ditems), len(kids))
        for (dk, dv), (ck, cv) in zip(ditems, kids):
            if not (dk == ck and type(dk) is type(ck)) or dv is not cv:
                return 'dict storage and child map differ at %r / %r' % (dk, ck)
    for k, c in kids:
        if not isinstance(c, ConfigNode):
            return 'entry %r is not a node' % (k,)
        r = invariant(c)
        if r:
            return r
    for path, nd in node.ayns.nodes_with_paths():
        if node.ayns.get_node(path) is not nd:
            return 'get_node(%r) is not the walked node' % (path,)
        if list(NodePath.split_path(NodePath.join_path(path))) != list(path):
            return 'path %r does not survive text round trip' % (path,)
    return None


def _apply_list(node, model, op, idx, idx2, val, mval):
    """apply op to the node and to the builtin-list model; returns (impl_exc, model_exc, impl_ret, model_ret)"""
    ie = me = None
    ir = mr = None
    try:
        if op == 'setitem':
            model[idx] = mval
        elif op == 'delitem':
            del model[idx]
        elif op == 'insert':
            model.insert(idx, mval)
        elif op == 'append':
            model.append(mval)
        elif op == 'extend':
            model.extend([mval, 5])
        elif op == 'extend_self':
            model.extend(model)
        elif op == 'remove':
            model.remove(mval)
        elif op == 'pop':
            mr = model.pop(idx)
        elif op == 'pop_default':
            mr = model.pop()
        elif op == 'clear':
            model.clear()
        elif op == 'getitem':
            mr = model[idx]
        elif op == 'remove_child':
            if not (-len(model) <= idx < len(model)):
                raise IndexError()
            mr = model.pop(idx)
        elif op == 'set_child':
            # non-strict: an index one past the end (or beyond) appends, too negative clamps to 0
            if idx >= len(model):
                model.append(mval)
            elif idx < -len(model):
                if model:
                    model[0] = mval
                else:
                    model.append(mval)
            else:
                model[idx] = mval
    except (IndexError, ValueError, TypeError) as e:
        me = type(e)
    try:
        if op == 'setitem':
            node[idx] = val
        elif op == 'delitem':
            del node[idx]
        elif op == 'insert':
            node.insert(idx, val)
        elif op == 'append':
            node.append(val)
        elif op == 'extend':
            node.extend([val, 5])
        elif op == 'extend_self':
            node.extend(node)
        elif op == 'remove':
            node.remove(val)
        elif op == 'pop':
            ir = node.pop(idx)
        elif op == 'pop_default':
            ir = node.pop()
        elif op == 'clear':
            node.clear()
        elif op == 'getitem':
            ir = node[idx]
        elif op == 'remove_child':
            ir = node.ayns.remove_child(idx)
        elif op == 'set_child':
            node.ayns.set_child(idx, val)
        elif op == 'rename_child':
            # not a list operation: it may be refused, or it has to keep the list consistent (children numbered 0..n-1)
            try:
                node.ayns.rename_child(idx, idx2)
            except (IndexError, ValueError, TypeError, KeyError):
                pass
            model[:] = [_plain(x) for x in list.__iter__(node)]
    except Exception as e:          # any exception class: compared with the builtin's below
        reraise_internal(e)
        ie = type(e)
    return ie, me, ir, mr


def c17_list_step(split, n, idx, idx2, vk):
    reset()
    op = split['op']
    if n > split['maxn']:
        return True
    n = pick(n, split['maxn'] + 1)
    if op in ('delitem', 'pop', 'pop_default', 'clear', 'getitem', 'remove_child') and not split.get('second') and vk:
        return True      # these operations take no value
    vk = pick(vk, 4)
    elems = _elems(n, split['variant'])
    node = ConfigList(elems)
    model = [_plain(e) for e in elems]
    val = _value(vk)
    mval = _plain(val)
    if op == 'remove':
        # remove an element that is present (first/last/duplicate) or absent, chosen by vk
        cand = ([model[0], model[-1]] if model else [12345, 12345]) + [12, 777]
        mval = cand[vk]
        val = mval
    pre = invariant(node)
    if pre:
        note(pre_invariant=pre)
        return False
    ops = [op]
    if split.get('second'):
        ops.append(split['second'])
        # two C-level realisations per path defeat CrossHair's exhaustion check: concretise both indices here
        if not (-3 <= idx <= 3 and -3 <= idx2 <= 3) or vk >= 2:
            return True
        idx = pick(idx + 3, 7) - 3
        idx2 = pick(idx2 + 3, 7) - 3
    note(op=ops, n=n, start=repr(model))
    for k, o in enumerate(ops):
        i = idx if k == 0 else idx2
        ie, me, ir, mr = _apply_list(node, model, o, i, idx2, val, mval)
        if ie is not me:
            note(mismatch='exception', impl=repr(ie), model=repr(me), step=k)
            return False
        if ie is None and o in ('pop', 'pop_default', 'getitem', 'remove_child') and _plain(ir) != mr:
            note(mismatch='return', impl=repr(_plain(ir)), model=repr(mr), step=k)
            return False
        inv = invariant(node)
        if inv:
            note(invariant=inv, step=k, after=repr(_plain(node)))
            return False
        if _plain(node) != model:
            note(mismatch='content', impl=repr(_plain(node)), model=repr(model), step=k)
            return False
        if me is not None:
            wit('raised')
        else:
            wit('applied')
    ev = EvalContext().evaluate(node)
    if ev != model:
        note(mismatch='evaluation order', impl=repr(ev), model=repr(model))
        return False
    return True


def _apply_dict(node, model, op, key, key2, val, mval):
    ie = me = None
    ir = mr = None
    try:
        if op in ('setitem', 'setattr', 'set_child', 'setdefault') and key in RESERVED:
            raise ValueError()       # refused: the model stays as it is
        if op == 'update' and key in RESERVED:
            raise ValueError()
        if op == 'update' and key2 in RESERVED:
            model[key] = mval        # entries before the refused one are applied
            raise ValueError()
        if op in ('setitem', 'setattr', 'set_child'):
            model[key] = mval
        elif op in ('delitem', 'delattr'):
            del model[key]
        elif op == 'update':
            model.update({key: mval, key2: 5})
        elif op == 'setdefault':
            mr = model.setdefault(key, mval)
        elif op == 'pop':
            mr = model.pop(key)
        elif op == 'clear':
            model.clear()
        elif op == 'remove_child':
            mr = model.pop(key)
        elif op == 'getitem':
            mr = model[key]
        elif op == 'rename_child':
            if key not in model or key2 in model:
                raise ValueError()
            items = list(model.items())
            model.clear()
            for k, v in items:
                if k == key:
                    continue
                model[k] = v
            model[key2] = dict(items)[key]
    except (KeyError, ValueError) as e:
        me = type(e)
    try:
        if op == 'setitem':
            node[key] = val
        elif op == 'setattr':
            setattr(node, key, val)
        elif op == 'set_child':
            node.ayns.set_child(key, val)
        elif op == 'delitem':
            del node[key]
        elif op == 'delattr':
            delattr(node, key)
        elif op == 'update':
            node.update({key: val, key2: 5})
        elif op == 'setdefault':
            ir = node.setdefault(key, val)
        elif op == 'pop':
            ir = node.pop(key)
        elif op == 'clear':
            node.clear()
        elif op == 'remove_child':
            ir = node.ayns.remove_child(key)
        elif op == 'getitem':
            ir = node[key]
        elif op == 'rename_child':
            node.ayns.rename_child(key, key2)
    except Exception as e:
        reraise_internal(e)
        ie = KeyError if isinstance(e, (KeyError, AttributeError)) else type(e)
    return ie, me, ir, mr


def c17_dict_step(split, present, ki, ki2, vk):
    reset()
    op = split['op']
    present = pick(present, 16)
    if split.get('thin') and present in (3, 5, 6, 9, 10, 12, 7, 11):
        return True
    ki = pick(ki, len(KEYS))
    ki2 = pick(ki2, len(KEYS))
    if (op in ('delitem', 'delattr', 'pop', 'clear', 'remove_child', 'rename_child', 'getitem') and vk) or (split.get('thin') and vk in (1, 3)):
        return True
    vk = pick(vk, 4)
    start = {}
    for b, k in enumerate(KEYS[:4]):
        if present & (1 << b):
            start[k] = [10, [1, 2], {'x': 3}, 13][b]
    key, key2 = KEYS[ki], KEYS[ki2]
    if op in ('setattr', 'delattr') and not (isinstance(key, str) and not key.startswith('_')):
        return True      # attribute access is defined for public string names only
    if op == 'delattr' and key in RESERVED:
        return True      # deletes the attribute lookup of the method itself: not a container operation
    if op == 'rename_child' and key2 in RESERVED:
        return True      # renaming TO a method name is not refused by the library (consistent views, outside the claim)
    node = ConfigDict(start)
    model = {k: _plain(v) for k, v in start.items()}
    val = _value(vk)
    mval = _plain(val)
    pre = invariant(node)
    if pre:
        note(pre_invariant=pre)
        return False
    note(op=op, start=repr(model), key=repr(key), key2=repr(key2))
    ie, me, ir, mr = _apply_dict(node, model, op, key, key2, val, mval)
    if ie is not me:
        note(mismatch='exception', impl=repr(ie), model=repr(me))
        return False
    if ie is None and op in ('pop', 'getitem', 'setdefault', 'remove_child') and _plain(ir) != mr:
        note(mismatch='return', impl=repr(_plain(ir)), model=repr(mr))
        return False
    inv = invariant(node)
    if inv:
        note(invariant=inv, after=repr(_plain(node)))
        return False
    if _plain(node) != model or [k for k in dict.keys(node)] != list(model.keys()):
        note(mismatch='content', impl=repr(_plain(node)), model=repr(model))
        return False
    wit('raised' if me is not None else 'applied')
    ev = EvalContext().evaluate(node)
    if ev != model or list(ev.keys()) != list(model.keys()):
        note(mismatch='evaluation', impl=repr(ev), model=repr(model))
        return False
    return True


def c17_extend_self(split, k):
    """l.extend(l) terminates and doubles the list like the builtin (run in a helper thread under a watchdog)"""
    import threading
    reset()
    k = pick(k, 3)
    out = {}

    def body():
        node = ConfigList(_elems(k + 1, 0))
        node.extend(node)
        out['len'] = len(node)
        out['inv'] = invariant(node)
    with untraced():
        t = threading.Thread(target=body, daemon=True)
        t.start()
        t.join(5.0)
        alive = t.is_alive()
    note(hang=alive, result=repr(out))
    wit('checked')
    return (not alive) and out.get('len') == 2 * (k + 1) and out.get('inv') is None


ALPHA = ['a', 'Z', '_', '0', 'a0', '_a', '00']
INTS = [-12, -1, 0, 1, 7, 12]


def c17_path_text(split, k1, k2, k3, i1, i2, i3, ncomp):
    """a path converted to text and parsed back is unchanged (components: symbolic-int indices and names from a pool)"""
    reset()
    ncomp = pick(ncomp, 4)
    comps = []
    for kind, name_i, num in ((split['kinds'][0], k1, i1), (split['kinds'][1], k2, i2), (split['kinds'][2], k3, i3))[:ncomp]:
        if kind == 'n':
            comps.append(ALPHA[pick(name_i, len(ALPHA))])
        else:
            comps.append(INTS[pick(num, len(INTS))])
    text = NodePath.join_path(comps)
    back = list(NodePath.split_path(text))
    note(comps=repr(comps), text=text, back=repr(back))
    wit('checked')
    if back != comps or any(type(a) is not type(b) for a, b in zip(back, comps)):
        return False
    return list(NodePath.get_list_path(text)) == comps and NodePath.get_str_path(comps) == text


def _splits_list(tier):
    out = []
    maxn = 3 if tier == 'quick' else 5
    for op in LIST_OPS:
        for variant in (0, 1, 2, 3):
            if tier == 'quick' and variant in (2, 3) and op in ('getitem', 'clear', 'pop_default', 'append', 'extend'):
                continue
            out.append({'op': op, 'variant': variant, 'maxn': maxn})
    seqs = [('append', 'insert'), ('insert', 'delitem'), ('delitem', 'insert'), ('insert', 'insert'), ('pop', 'insert'), ('remove', 'setitem'), ('set_child', 'delitem')]
    if tier != 'quick':
        seqs += [(a, b) for a in ('insert', 'delitem', 'setitem', 'pop', 'remove_child') for b in ('insert', 'delitem', 'pop', 'set_child')]
    for a, b in seqs:
        out.append({'op': a, 'second': b, 'variant': 0, 'maxn': 2 if tier == 'quick' else 4})
    # histories that create the shared-node state through the API itself: extend(self), then one more operation
    for b in ('delitem', 'pop', 'remove_child', 'insert', 'setitem') + (() if tier == 'quick' else ('remove', 'set_child', 'append')):
        out.append({'op': 'extend_self', 'second': b, 'variant': 0, 'maxn': 2 if tier == 'quick' else 3})
    return out


def _splits_dict(tier):
    return [{'op': op, 'thin': tier == 'quick'} for op in DICT_OPS]


def _splits_path(tier):
    import itertools
    return [{'kinds': list(k)} for k in itertools.product('ni', repeat=3)]


HARNESSES = {
    'c17_list_step': Harness('c17_list_step', c17_list_step,
                             [('n', 'int', 0, 5), ('idx', 'int', -7, 7), ('idx2', 'int', -5, 5), ('vk', 'int', 0, 3)], _splits_list,
                             doc='one (or two) list operations with symbolic indices from every start state of bounded length; invariant + builtin-list differential',
                             witnesses=('applied',)),
    'c17_extend_self': Harness('c17_extend_self', c17_extend_self, [('k', 'int', 0, 2)], lambda tier: [{}],
                               doc='extend(self) under a watchdog thread', witnesses=('checked',)),
    'c17_dict_step': Harness('c17_dict_step', c17_dict_step,
                             [('present', 'int', 0, 15), ('ki', 'int', 0, len(KEYS) - 1), ('ki2', 'int', 0, len(KEYS) - 1), ('vk', 'int', 0, 3)], _splits_dict,
                             doc='one mapping operation from every start state over the key pool; invariant + builtin-dict differential', witnesses=('applied',)),
    'c17_path_text': Harness('c17_path_text', c17_path_text,
                             [('k1', 'int', 0, len(ALPHA) - 1), ('k2', 'int', 0, len(ALPHA) - 1), ('k3', 'int', 0, len(ALPHA) - 1),
                              ('i1', 'int', 0, len(INTS) - 1), ('i2', 'int', 0, len(INTS) - 1), ('i3', 'int', 0, len(INTS) - 1), ('ncomp', 'int', 0, 3)], _splits_path,
                             doc='NodePath text round trip over bounded component pools', witnesses=('checked',)),
}
