"""C19 - deepcopy and pickle reproduce any node tree, independent of the original."""
import copy
import pickle
from engine.api import Harness
from engine.symlib import pick, site, reset, wit, note, untraced, reraise_internal, known
from awesomeyaml.builder import Builder
from awesomeyaml.eval_context import EvalContext
from awesomeyaml.nodes.node import ConfigNode
from awesomeyaml.nodes.composed import ComposedNode
from harness.C18 import SHAPES, KINDS, PAIRS, _flags, _plain, PROBES
from harness.C18 import describe as describe_effective

PROPERTY = {
    'id': 'C19',
    'technique': 'CrossHair symbolic execution of ComposedNode.__reduce__/__setstate__/_recreate, ConfigScalar.__reduce__ and the container mutators they use, through copy.deepcopy with symbolic merge-control flags (they stay symbolic inside the copied __dict__s) and through pickle with the flags concretised by exact selectors (pickle is a C boundary); node-wise comparison, disjointness of node identities, probe merges, and mutation isolation with a symbolic choice of mutation',
    'assumptions': ['metadata codec stub for flag sites (native replays use the real pickle codec)',
                    'for the pickle round trip flags are realised before pickling (C-level pickler), so there the solver certifies exhaustive case analysis over the flag values'],
    'bounds': {'trees': 'the 13 two-site shapes and 25 node kinds of C18 (mappings, lists, scalars, null, empty containers, function nodes, xref/eval/fstr/import/path/required/clear/append/extend/prev), 2 symbolic flag sites, user metadata',
               'mutations': '8 (metadata edit on a leaf / on a container, item set, append, delete, flag change, nested value edit, clear) applied to the copy or to the original (symbolic)',
               'aliases': '3 documents with YAML anchors/aliases (shared node under 2..3 entries, nested anchors), 2 mutations each',
               },
    'outside': ['sharing created by hand through the API (beyond what the loader produces for aliases)', 'objects inside !call results'],
    'per_split_timeout': {'quick': 600, 'thorough': 1800},
    'wall_budget': {'quick': 1500, 'thorough': 7000},
}


def _parse(text):
    b = Builder()
    b.add_source(text, raw_yaml=True, filename='/proj/f.yaml')
    return b.stages[0]


def nodes_of(root):
    out = [('', root)]
    if isinstance(root, ComposedNode):
        out += [(str(p), n) for p, n in root.ayns.nodes_with_paths()]
    return out


def info(n):
    i = dict(n.ayns.node_info)
    i.pop('idx', None)
    i['metadata'] = repr(sorted(i['metadata'].items(), key=str))     # a value snapshot, not a reference to the live dict
    extra = (getattr(n, '_func', None), getattr(n, 'ref_point', None), getattr(n, 'filenames', None), getattr(n, 'persistent_namespace', None))
    val = None
    if not isinstance(n, ComposedNode):
        val = n.ayns.native_value if hasattr(n, '_dyn_base') else None
    else:
        val = (len(n._children), [k if not isinstance(k, ConfigNode) else k.ayns.native_value for k in n._children])
    return (type(n).__name__, val, extra, i)


def describe(root):
    return [(p, info(n)) for p, n in nodes_of(root)]


def all_node_ids(root):
    ids = set()
    for p, n in nodes_of(root):
        ids.add(id(n))
        if isinstance(n, dict):
            for k in dict.keys(n):
                if isinstance(k, ConfigNode):
                    ids.add(id(k))
    return ids


MUTS = ['leaf_md', 'cont_md', 'setitem', 'append', 'delete', 'flag', 'nested', 'clear']


def mutate(root, m):
    a = root['a'] if (isinstance(root, dict) and 'a' in root) else root
    if m == 'leaf_md':
        for p, n in nodes_of(a):
            if not isinstance(n, ComposedNode):
                n.ayns.metadata['touched'] = 1
    elif m == 'cont_md':
        a.ayns.metadata['touched'] = 1
    elif m == 'setitem':
        if isinstance(a, dict):
            a['zz'] = 1
        elif isinstance(a, list):
            a.append(1)
    elif m == 'append':
        for p, n in nodes_of(a):
            if isinstance(n, list) and p:
                n.append(77)
                break
    elif m == 'delete':
        if isinstance(a, dict) and len(a):
            del a[list(dict.keys(a))[0]]
        elif isinstance(a, list) and len(a):
            del a[0]
    elif m == 'flag':
        a._priority = -1 if a._priority != -1 else 1
        a._safe = False
    elif m == 'nested':
        for p, n in reversed(nodes_of(a)):
            if isinstance(n, ComposedNode) and p:
                n.clear()
                break
    elif m == 'clear':
        a.clear()


def _merge_probe(root):
    out = []
    for older, newer in PROBES[:2]:
        b = Builder()
        b.add_source(older, raw_yaml=True)
        b.stages.append(copy.deepcopy(root))      # probes must not consume the tree under test
        b.add_source(newer, raw_yaml=True)
        try:
            out.append(('ok', _plain(b.build())))
        except Exception as e:
            reraise_internal(e)
            out.append(('err', type(e).__name__))
    return out


def c19_copy(split, pa1, va1, pa2, va2, pva, pb1, vb1, pb2, vb2, pvb, mdb, mut, side):
    reset()
    how = split['how']
    fa = _flags(split['pairA'], pa1, va1, pa2, va2, pva)
    fb = _flags(split['pairB'], pb1, vb1, pb2, vb2, pvb)
    if how == 'pickle':
        # pickle is a C boundary: concretise the flags that are present (exact decision tree), nothing else
        for f in (fa, fb):
            for k in list(f):
                if k == 'priority':
                    f[k] = pick(f[k] + 1, 3) - 1
                else:
                    f[k] = True if f[k] else False
    md = {'note': ['x']} if mdb else None
    A = site('A', fa) if fa else ''
    B = site('B', fb, md) if (fb or md) else ''
    if 'kind' in split:
        text = 'a: %s\n  b: %s\n  c: 3\n' % (A, KINDS[split['kind']])
    else:
        text = SHAPES[split['shape']] % {'A': A, 'B': B} + '\n'
    mut = pick(mut, len(MUTS))
    note(text=text, how=how, mutation=MUTS[mut])
    try:
        orig = _parse(text)
        sub = split.get('sub', 0)
        if sub >= 1:
            orig = orig['a']                     # a sub-tree: its root carries flags of its own
        if sub >= 2:
            if not isinstance(orig, ComposedNode) or not len(orig._children):
                return True
            orig = list(orig._children.values())[0]   # a sub-tree whose root only INHERITS flags from the node above
        d0 = describe(orig)
        if how == 'deepcopy':
            cp = copy.deepcopy(orig)
        else:
            with untraced():
                blob = pickle.dumps(orig)
                cp = pickle.loads(blob)
        d1 = describe(cp)
    except Exception as e:
        reraise_internal(e)
        note(error=repr(e)[:300])
        return False
    if d0 != d1:
        for x, y in zip(d0, d1):
            if x != y:
                note(differs_at=repr(x[0]), original=repr(x), copy=repr(y))
                break
        else:
            note(differs='length %d vs %d' % (len(d0), len(d1)))
        return False
    wit('equal')
    if all_node_ids(orig) & all_node_ids(cp):
        note(shared='a node object is shared between copy and original')
        return False
    if split.get('probe') and not split.get('sub'):
        if _merge_probe(orig) != _merge_probe(cp):
            note(probe='merge results differ')
            return False
        wit('probed')
    # mutation isolation
    victim, other = (cp, orig) if side else (orig, cp)
    before = describe(other)
    try:
        mutate(victim, MUTS[mut])
    except Exception as e:
        reraise_internal(e)
        note(mutation_error=repr(e)[:200])
    after = describe(other)
    if before != after:
        for x, y in zip(before, after):
            if x != y:
                note(leak_at=repr(x[0]), before=repr(x), after=repr(y))
                break
        return False
    wit('isolated')
    return True


ALIAS_DOCS = [
    # YAML anchors / aliases: the loader puts ONE node object under several entries
    'defaults: &d %(A)s {opt: {lr: 1, sched: [10, 20]}, k: 2}\ntrain: *d\nother: {o: *d, p: 1}\n',
    'base: %(A)s {l: &l [1, {m: 2}], again: *l}\ncp: [*l, 3]\n',
    'x: &s %(A)s {inner: &i {v: [1]}}\ny: {first: *i, second: *s}\n',
]
ALIAS_MUTS = [('defaults.opt.sched', 'append'), ('train.opt', 'set'), ('base.l', 'append'), ('cp[0][1]', 'set'), ('x.inner.v', 'append'), ('y.first', 'set')]


def _sharing(root):
    """partition of the node paths by node identity"""
    groups = {}
    for p, n in nodes_of(root):
        groups.setdefault(id(n), []).append(p)
    return sorted(sorted(g) for g in groups.values())


def _node_at(root, path):
    return root.ayns.get_node(path)


def c19_alias(split, pa1, va1, pa2, va2, pva, mi, side):
    """a tree in which one node is reachable through several entries (YAML alias): the copy has the same sharing
    structure and the same mutation through one entry shows through the others in the copy as in the original"""
    reset()
    how = split['how']
    fa = _flags(split['pairA'], pa1, va1, pa2, va2, pva)
    if how == 'pickle':
        for k in list(fa):
            fa[k] = (pick(fa[k] + 1, 3) - 1) if k == 'priority' else bool(fa[k])
    A = site('A', fa) if fa else ''
    text = ALIAS_DOCS[split['doc']] % {'A': A}
    mi = pick(mi, 2)
    mpath, mkind = ALIAS_MUTS[2 * split['doc'] + mi]
    note(text=text, how=how, mutation=(mpath, mkind))
    try:
        orig = _parse(text)
        s0 = _sharing(orig)
        d0 = describe_effective(orig)
        if how == 'deepcopy':
            cp = copy.deepcopy(orig)
        else:
            with untraced():
                cp = pickle.loads(pickle.dumps(orig))
        s1 = _sharing(cp)
        d1 = describe_effective(cp)
    except Exception as e:
        reraise_internal(e)
        note(error=repr(e)[:300])
        return False
    if any(len(g) > 1 for g in s0):
        wit('shared_in_original')
    if d0 != d1:
        # effective flags (what merging and evaluation see), not raw slots: the raw implicit slots of a node that sits under
        # several parents record whichever parent attached it last, which a copy may legitimately normalise
        for x, y in zip(d0, d1):
            if x != y:
                note(differs_at=repr(x[0]), original=repr(x), copy=repr(y))
                break
        # known finding (specific signature): the node aliased as &i sits under parents handing down different delete flags
        # (x is !merge, y is plain); the original keeps the flag of the parent that attached it last, the pickle copy
        # re-derives it from the first: only the effective inherited flags (delete / allow_new / safe) of the lists below that node differ
        if how == 'pickle' and split['doc'] == 2 and len(d0) == len(d1) \
                and (fa.get('delete') is False or fa.get('allow_new') is False or fa.get('safe') is False):
            diffs = [(x, y) for x, y in zip(d0, d1) if x != y]
            # fields 5..7 (effective delete / allow_new / safe) and 10 (what the list hands to its own children) derive from inherited flags
            if all(x[0].startswith(('x.inner.v', 'y.first.v', 'y.second.inner.v')) and x[:5] == y[:5] and x[8:10] == y[8:10] for x, y in diffs) \
                    and known('C19-alias-two-parents'):
                return True
        return False
    if s0 != s1:
        note(sharing_original=repr(s0), sharing_copy=repr(s1))
        return False
    if all_node_ids(orig) & all_node_ids(cp):
        note(shared='a node object is shared between copy and original')
        return False
    wit('equal')
    # the same mutation on both trees: both must still look alike (it shows through every alias, or through none)
    for tree in ((orig, cp) if side else (cp, orig)):
        n = _node_at(tree, mpath)
        if mkind == 'append':
            n.append(30)
        else:
            n['added'] = 5
    if _plain(orig) != _plain(cp):
        note(after_mutation_original=repr(_plain(orig)), after_mutation_copy=repr(_plain(cp)))
        return False
    if _sharing(orig) != _sharing(cp):
        note(sharing_after='differs')
        return False
    wit('mutated_alike')
    return True


def _splits_alias(tier):
    out = []
    for how in ('deepcopy', 'pickle'):
        for doc in range(len(ALIAS_DOCS)):
            for pa in (('pd',) if tier == 'quick' else ('pd', 'ns', 'dn', 'ps')):
                out.append({'how': how, 'doc': doc, 'pairA': pa})
    return out


def _splits(tier):
    out = []
    for how in ('deepcopy', 'pickle'):
        if tier == 'quick':
            combos = [(0, 'pd', 'dn'), (1, 'ns', 'dn'), (3, 'pd', 'ps'), (8, 'dn', 'ns')]
        else:
            pcs = [('pd', 'pd'), ('ns', 'dn'), ('dn', 'ps'), ('ps', 'ns')]
            # two of the four flag-pair combinations per shape (alternating): the full product does not fit the wall budget
            combos = [(sh, pa, pb) for sh in range(len(SHAPES)) for pa, pb in (pcs[:2] if sh % 2 == 0 else pcs[2:])]
        for sh, pa, pb in combos:
            for bits in range(4):
                pre = ' and '.join(('' if bits & (1 << i) else 'not ') + v for i, v in enumerate(('pa1', 'pb1')))
                if tier == 'quick':
                    pre += ' and (mut %% 4 == %d)' % bits + ' and not mdb' * (not (bits == 3 and sh == 1)) + ' and side == (mut >= 4)'
                else:
                    # thorough: every shape, two flag-pair combinations; the mutation is tied to the split as in the quick tier but
                    # shifted by the shape, so that over the shapes every mutation meets every presence pattern on both sides
                    pre += ' and (mut %% 4 == %d)' % ((bits + sh) % 4) + ' and side == ((mut >= 4) == (%d %% 2 == 0))' % sh
                out.append({'how': how, 'shape': sh, 'pairA': pa, 'pairB': pb, 'probe': bits == 0 or (tier != 'quick' and bits == 3), '_pre': pre})
                if bits in (1, 3) and (tier != 'quick' or how == 'pickle' or sh == 0):
                    out.append({'how': how, 'shape': sh, 'pairA': pa, 'pairB': pb, 'probe': False, 'sub': 1 + (bits == 1) * 1, '_pre': pre})
        for k in range(len(KINDS)):
            out.append({'how': how, 'kind': k, 'pairA': ['pd', 'ns'][k % 2], 'pairB': 'pd', 'probe': False,
                        '_pre': 'not pb1 and not pb2 and not mdb and mut %% 3 == %d and side == (mut >= 4)' % (k % 3)})
    return out


PARAMS = [('pa1', 'bool'), ('va1', 'bool'), ('pa2', 'bool'), ('va2', 'bool'), ('pva', 'int', -1, 1),
          ('pb1', 'bool'), ('vb1', 'bool'), ('pb2', 'bool'), ('vb2', 'bool'), ('pvb', 'int', -1, 1), ('mdb', 'bool'),
          ('mut', 'int', 0, len(MUTS) - 1), ('side', 'bool')]

HARNESSES = {
    'c19_alias': Harness('c19_alias', c19_alias,
                         [('pa1', 'bool'), ('va1', 'bool'), ('pa2', 'bool'), ('va2', 'bool'), ('pva', 'int', -1, 1), ('mi', 'int', 0, 1), ('side', 'bool')],
                         _splits_alias, doc='3 documents with YAML anchors/aliases (one node under several entries): same sharing structure in the copy, same effect of a mutation through one entry',
                         witnesses=('equal', 'shared_in_original', 'mutated_alike')),
    'c19_copy': Harness('c19_copy', c19_copy, PARAMS, _splits,
                        doc='deepcopy (symbolic flags) / pickle (flags concretised by selectors) of parsed trees; node-wise equality incl. raw flags, disjoint identities, probe merges, mutation isolation',
                        witnesses=('equal', 'isolated')),
}
