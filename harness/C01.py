"""C01 - tags are transparent: Config.build(single source) == yaml.load(tag-erased source)."""
import yaml as pyyaml
from engine.api import Harness
from engine.symlib import pick, site, reset, wit, note, untraced, reraise_internal, known, flagset
from engine import docfam
from awesomeyaml.config import Config

PROPERTY = {
    'id': 'C01',
    'technique': 'CrossHair symbolic execution of the real loader/constructors/evaluation with symbolic merge-control flags at tag sites; shape, site position and literal tag by exact decision-tree selectors; z3 decides every path',
    'assumptions': [
        'metadata codec stub for !metadata:<token> sites (native replays use the real pickle codec); the {{..}} syntax goes through the real _encode_all_metadata',
        'PyYAML scanning/parsing/composing of concrete text is trusted',
        'scalars come from a pool of 12 literals; keys from {a, b, _u, 1, 2.5, x}',
    ],
    'bounds': {'shapes': 'all mapping documents with <=4 nodes (quick) / <=6 (thorough), depth <=3, lists <=2, mappings <=2 keys',
               'sites': '1 site at any node (quick) / 2 sites (thorough)',
               'flags per site': 'none | priority in {-1,0,1} | delete in {T,F} | allow_new=True | safe in {T,F}; literal tags !force !weak !del !merge !new !unsafe !metadata{{..}}'},
    'outside': ['arbitrary unicode scalars, anchors/aliases, block-style collections other than the 7 listed documents (c01_block), multi-line block scalars', 'value-less !del (removes the key by design)',
                'keys equal to attribute names of the node classes', 'allow_new=False in a first document (error by design)'],
    'per_split_timeout': {'quick': 600, 'thorough': 1800},
    'wall_budget': {'quick': 1500, 'thorough': 7000},
}

LITERAL = [None, '!force', '!weak', '!del', '!merge', '!new', '!unsafe', "!metadata{{ 'note': [1, 'x'], 'priority': 1 }}"]
KEYVARS = [{}, {'a': '_u', 'b': '1'}, {'a': '2.5', 'b': 'x'}]


def _family(tier):
    n = 4 if tier == 'quick' else 5
    return docfam.shapes(n, 3)


def same(a, b):
    """deep equality with exact scalar types, key order and list order"""
    if isinstance(b, dict):
        if not isinstance(a, dict) or list(a.keys()) != list(b.keys()):
            return False
        for (ka, va), (kb, vb) in zip(a.items(), b.items()):
            if type(ka) is not type(kb) or ka != kb or not same(va, vb):
                return False
        return True
    if isinstance(b, list):
        if type(a) is not list or len(a) != len(b):
            return False
        return all(same(x, y) for x, y in zip(a, b))
    return type(a) is type(b) and a == b


def _tag(name, t, pp, p, dp, d, np_, sp, s):
    t = pick(t, len(LITERAL))
    if t:
        return LITERAL[t]
    return site(name, flagset(pp, p, dp, d, np_, True, sp, s))


def c01_one_site(split, si, pos, t, pp, p, dp, d, np_, sp, s):
    reset()
    fam = _family(split['tier'])
    lo, hi = split['lo'], split['hi']
    if si >= hi - lo:
        return True
    si = pick(si, hi - lo)
    sh = docfam.fill_scalars(docfam.rename_keys(fam[lo + si], KEYVARS[(lo + si) % 3]), start=(lo + si) % 5)
    n = docfam.count_nodes(sh)
    pos = pick(pos, 6)
    if pos >= n:
        return True
    tag = _tag('s0', t, pp, p, dp, d, np_, sp, s)
    with untraced():
        plain = docfam.render(sh)
        expected = pyyaml.load(plain, Loader=pyyaml.Loader)
    text = docfam.render(sh, {pos: tag})
    note(text=text, plain=plain, expected=repr(expected))
    try:
        cfg = Config.build(text, raw_yaml=True)
    except Exception as e:
        reraise_internal(e)
        note(error=repr(e))
        return False
    wit('built')
    ok = same(cfg, expected)
    note(got=repr(cfg))
    return ok


def c01_two_sites(split, si, pos, pos2, t, pp, p, dp, d, np_, sp, s, t2, dp2, d2):
    """two tag sites (second one: literal tag or delete flag), tagged-inside-tagged included"""
    reset()
    fam = _family(split['tier'])
    lo, hi = split['lo'], split['hi']
    if si >= hi - lo:
        return True
    si = pick(si, hi - lo)
    sh = docfam.fill_scalars(docfam.rename_keys(fam[lo + si], KEYVARS[(lo + si) % 3]), start=(lo + si) % 5)
    n = docfam.count_nodes(sh)
    pos = pick(pos, 6)
    pos2 = pick(pos2, 6)
    if pos >= n or pos2 >= n or pos2 <= pos:
        return True
    tag = _tag('s0', t, pp, p, dp, d, np_, sp, s)
    tag2 = _tag('s1', t2, False, 0, dp2, d2, False, False, False)
    with untraced():
        plain = docfam.render(sh)
        expected = pyyaml.load(plain, Loader=pyyaml.Loader)
    text = docfam.render(sh, {pos: tag, pos2: tag2})
    note(text=text, plain=plain, expected=repr(expected))
    try:
        cfg = Config.build(text, raw_yaml=True)
    except Exception as e:
        reraise_internal(e)
        note(error=repr(e))
        return False
    wit('built')
    ok = same(cfg, expected)
    note(got=repr(cfg))
    return ok


TEXTS = ['0123', '1.10', 'yes', '~', '1:30', 'txt', '2001-01-01', '0x1F', '', 'null', '-7', ' 5']
STYLES = ['plain', 'single', 'double', 'literal', 'folded', 'literal_keep']


def _styled(text, style, tag):
    pre = (tag + ' ') if tag else ''
    if style == 'plain':
        return 'k: ' + pre + text.strip() + '\n'
    if style == 'single':
        return 'k: ' + pre + "'" + text + "'\n"
    if style == 'double':
        return 'k: ' + pre + '"' + text + '"\n'
    ind = {'literal': '|-', 'folded': '>-', 'literal_keep': '|'}[style]
    return 'k: ' + pre + ind + '\n  ' + (text.strip() or 'x') + '\n'


def c01_scalars(split, ti, t, pp, p, dp, d, np_, sp, s):
    """a tagged scalar in every YAML scalar style has the value and type PyYAML gives the untagged scalar"""
    reset()
    ti = pick(ti, len(TEXTS))
    style = split['style']
    tag = _tag('s0', t, pp, p, dp, d, np_, sp, s)
    if tag == '!del' and style == 'plain' and TEXTS[ti].strip() == '':
        return True          # value-less !del removes the key by design
    text = _styled(TEXTS[ti], style, tag)
    plain = _styled(TEXTS[ti], style, '')
    with untraced():
        expected = pyyaml.load(plain, Loader=pyyaml.Loader)
    note(text=text, plain=plain, expected=repr(expected))
    try:
        cfg = Config.build(text + 'z: 1\n', raw_yaml=True)
    except Exception as e:
        reraise_internal(e)
        note(error=repr(e))
        # known finding (specific signature): a plain scalar that YAML resolves to a timestamp cannot be wrapped at all
        if style == 'plain' and TEXTS[ti] == '2001-01-01' and type(e).__name__ == 'ParsingError' and known('C01-timestamp-scalar'):
            return True
        return False
    wit('built')
    note(got=repr(cfg))
    expected['z'] = 1
    return same(cfg, expected)


BLOCKS = [
    # block-style collections with EMPTY entries (implicit nulls), repeated values, nested block lists and mappings
    'tail: {T0}\n  -\n  -\n  - last\nz: 1\n',
    'jobs: {T0}\n  retries: 3\n  slots: {T1}\n    -\n    - 4\n    -\n    - {{cpu: 2, _hint: }}\n  plain: {T2} [1, 1, 2, true, 1.5, x]\n',
    'm: {T0}\n  x:\n  y:\n  w: {T1}\n    p:\n    q:\nn: {T2}\n  -\n  -\n',
    'l: {T0}\n  - {T1}\n    -\n    -\n  - {T2}\n    - 1\n    - 1\n  -\n',
    'e: {T0} {{a: , b: , c: {T1} [1, 1]}}\nf: {T2}\n  - ~\n  - null\n  -\n',
    # keys whose TEXT spells the path of another node of the document (after / before that node), float key vs nested int keys
    'a: {T0}\n  b: 1\n  c: {T1} [5, 6]\n"a.b": 2\n"a.c[1]": {T2} 3\n',
    '"m.x": {T0} {{q: 1}}\n1.5: y\nm: {T1}\n  x: {T2} [7]\n1:\n  5: z\n',
]


def c01_block(split, pos, pos2, t, pp, p, dp, d, np_, sp, s, t2, dp2, d2):
    """block-style documents with empty entries: 1..2 tag sites on the collection nodes vs yaml.load of the untagged text"""
    reset()
    tpl = BLOCKS[split['doc']]
    pos = pick(pos, 3)
    pos2 = pick(pos2, 4)         # 3 = no second site
    if pos2 <= pos:
        return True
    tags = {'T0': '', 'T1': '', 'T2': ''}
    tags['T%d' % pos] = _tag('s0', t, pp, p, dp, d, np_, sp, s)
    if pos2 < 3:
        tags['T%d' % pos2] = _tag('s1', t2, False, 0, dp2, d2, False, False, False)
    text = tpl.format(**tags)
    plain = tpl.format(T0='', T1='', T2='')
    with untraced():
        expected = pyyaml.load(plain, Loader=pyyaml.Loader)
    note(text=text, plain=plain, expected=repr(expected))
    try:
        cfg = Config.build(text, raw_yaml=True)
    except Exception as e:
        reraise_internal(e)
        note(error=repr(e))
        return False
    wit('built')
    note(got=repr(cfg))
    return same(cfg, expected)


ONE_FLAG = '(pp + dp + np_ + sp) <= 1'


def _splits_one(tier):
    fam = _family(tier)
    step = 2 if tier == 'quick' else 4
    # quick: symbolic flag kinds alternate between (priority, delete) and (allow_new, safe) from split to split
    return [{'tier': tier, 'lo': lo, 'hi': min(lo + step, len(fam)),
             '_pre': ('True' if tier != 'quick' else ('not np_ and not sp' if (lo // step) % 2 == 0 else 'not pp and not dp'))}
            for lo in range(0, len(fam), step)]


def _splits_two(tier):
    fam = _family(tier)
    step = 1 if tier == 'quick' else 2
    out = [{'tier': tier, 'lo': lo, 'hi': min(lo + step, len(fam))} for lo in range(0, len(fam), step)]
    if tier == 'quick':
        out = out[3::14]
    else:
        out = out[::2]
    return out


_P1 = [('si', 'int', 0, 5), ('pos', 'int', 0, 5), ('t', 'int', 0, len(LITERAL) - 1),
       ('pp', 'bool'), ('p', 'int', -1, 1), ('dp', 'bool'), ('d', 'bool'), ('np_', 'bool'), ('sp', 'bool'), ('s', 'bool')]

HARNESSES = {
    'c01_one_site': Harness('c01_one_site', c01_one_site, _P1, _splits_one,
                            pre=f'{ONE_FLAG} and (t == 0 or not (pp or dp or np_ or sp))',
                            doc='every shape x every node position x (symbolic flag site | literal tag) vs yaml.load of the erased text',
                            witnesses=('built',)),
    'c01_scalars': Harness('c01_scalars', c01_scalars,
                           [('ti', 'int', 0, len(TEXTS) - 1), ('t', 'int', 0, len(LITERAL) - 1),
                            ('pp', 'bool'), ('p', 'int', -1, 1), ('dp', 'bool'), ('d', 'bool'), ('np_', 'bool'), ('sp', 'bool'), ('s', 'bool')],
                           lambda tier: [{'style': st, '_pre': ('t != 0 or not (pp or np_)') if tier == 'quick' else 'True'} for st in STYLES],
                           pre=f'{ONE_FLAG} and (t == 0 or not (pp or dp or np_ or sp))',
                           doc='12 scalar texts x 6 YAML scalar styles (plain, quoted, block literal/folded) x symbolic flag site or literal tag', witnesses=('built',)),
    'c01_block': Harness('c01_block', c01_block,
                         [('pos', 'int', 0, 2), ('pos2', 'int', 0, 3), ('t', 'int', 0, len(LITERAL) - 1),
                          ('pp', 'bool'), ('p', 'int', -1, 1), ('dp', 'bool'), ('d', 'bool'), ('np_', 'bool'), ('sp', 'bool'), ('s', 'bool'),
                          ('t2', 'int', 0, 1), ('dp2', 'bool'), ('d2', 'bool')],
                         lambda tier: [{'doc': i, 'pos': k, '_pre': 'pos == %d and (%s)' % (k, ('not np_ and not sp' if (i + k) % 2 == 0 else 'not pp and not dp') if tier == 'quick' else 'True')}
                                       for i in range(len(BLOCKS)) for k in range(3)],
                         pre=f'{ONE_FLAG} and (t == 0 or not (pp or dp or np_ or sp)) and (t2 == 0 or not dp2) and pos < pos2',
                         doc='7 block-style documents: empty (implicit null) entries, repeated values, keys whose text spells the path of another node; 1..2 symbolic tag sites',
                         witnesses=('built',)),
    'c01_two_sites': Harness('c01_two_sites', c01_two_sites,
                             [('si', 'int', 0, 3), ('pos', 'int', 0, 5), ('pos2', 'int', 0, 5), ('t', 'int', 0, len(LITERAL) - 1),
                              ('pp', 'bool'), ('p', 'int', -1, 1), ('dp', 'bool'), ('d', 'bool'), ('np_', 'bool'), ('sp', 'bool'), ('s', 'bool'),
                              ('t2', 'int', 0, 1), ('dp2', 'bool'), ('d2', 'bool')],
                             _splits_two,
                             pre=f'{ONE_FLAG} and (t == 0 or not (pp or dp or np_ or sp)) and (t2 == 0 or not dp2) and (t == 0 or t == 3) and pos < pos2',
                             doc='two tag sites incl. tagged-inside-tagged; second site literal tag or symbolic delete',
                             witnesses=('built',)),
}
