"""C13 - !call / !bind pass arguments as Python would; function nodes merge by the documented table."""
import inspect
import functools
from engine.api import Harness
from engine.symlib import pick, site, reset, wit, note, untraced, reraise_internal
from engine import targets
from awesomeyaml.builder import Builder
from awesomeyaml.eval_context import EvalContext
from awesomeyaml import errors as ayerr

PROPERTY = {
    'id': 'C13',
    'technique': 'CrossHair symbolic execution of FunctionNode._resolve_args / CallNode / BindNode evaluation and FunctionNode.on_merge_impl on nodes parsed by the real loader; which integer positions and names are present is symbolic (booleans), the delete flag of the merged function node is symbolic; oracle = Python call semantics via the same recording targets and the merge table of the statement',
    'assumptions': ['recording targets engine.targets.{pos2,pos3,dflt,kwonly,varpos,varkw,mixed} cover the signature kinds; argument values are distinct markers',
                    'metadata codec stub for the !call:name:sK form (native replays use the real pickle codec)'],
    'bounds': {'positions': 'any subset of {0..4} (symbolic presence bits)', 'names': 'any subset of {first parameter name, second parameter name, k, zz}',
               'argument forms': 'mapping, list, scalar; dynamic values (!xref, !eval) for two arguments',
               'merge histories': 'function node <- mapping | list | different-name string | same-target function node | different-target function node, delete flag {absent,T,F}; 2 stages (quick) / 3 (thorough)'},
    'outside': ['an integer position that lands on a keyword-only parameter (statement open)', 'a string with the SAME target name merged onto a function node (not in the table)'],
    'per_split_timeout': {'quick': 600, 'thorough': 1800},
    'wall_budget': {'quick': 1500, 'thorough': 7000},
}

TARGETS = ['pos2', 'pos3', 'dflt', 'kwonly', 'varpos', 'varkw', 'mixed']
NAMES = {'pos2': ['a', 'b'], 'pos3': ['a', 'b'], 'dflt': ['a', 'b'], 'kwonly': ['a', 'k'], 'varpos': ['a', 'zz'], 'varkw': ['a', 'q'], 'mixed': ['a', 'b']}


def _expected_call(tname, int_args, name_args):
    """Python semantics from the statement: leading positions 0..k-1 are positional, later positions are bound
    by the name of the i-th positional parameter, an index beyond the signature is an error."""
    fn = getattr(targets, tname)
    params = list(inspect.signature(fn).parameters.values())
    posnames = []
    for p in params:
        if p.kind == inspect.Parameter.VAR_POSITIONAL:
            break
        if p.kind in (inspect.Parameter.POSITIONAL_ONLY, inspect.Parameter.POSITIONAL_OR_KEYWORD):
            posnames.append(p.name)
        elif p.kind == inspect.Parameter.KEYWORD_ONLY:
            posnames.append(None)        # a position that would land on a keyword-only parameter: unspecified
        else:
            break
    pos = []
    i = 0
    rest = dict(int_args)
    while i in rest:
        pos.append(rest.pop(i))
        i += 1
    kw = {}
    for idx in sorted(rest):
        if idx >= len(posnames):
            return ('error', 'index beyond signature')
        if posnames[idx] is None:
            return ('unspecified', None)
        kw[posnames[idx]] = rest[idx]
    for n, v in name_args.items():
        if n in kw:
            return ('error', 'multiple values')
        kw[n] = v
    return ('call', (pos, kw))


def _run_oracle(tname, pos, kw):
    targets.LOG.clear()
    try:
        getattr(targets, tname)(*pos, **kw)
    except TypeError as e:
        return ('error', 'TypeError')
    ent = targets.LOG[-1]
    targets.LOG.clear()
    return ('logged', ent)


def c13_args(split, b0, b1, b2, b3, b4, n0, n1, nk, nz, rev):
    reset()
    tname = split['target']
    mode = split['mode']
    present = [b0, b1, b2, b3, b4]
    int_args = {}
    for i in range(5):
        if present[i]:
            int_args[i] = 100 + i
    name_args = {}
    pn = NAMES[tname]
    if n0:
        name_args[pn[0]] = 200
    if n1:
        name_args[pn[1]] = 201
    if nk:
        name_args['k'] = 202
    if nz:
        name_args['zz'] = 203
    items = ['%d: %d' % (i, v) for i, v in int_args.items()] + ['%s: %d' % (n, v) for n, v in name_args.items()]
    if rev:
        items.reverse()          # keys written in descending order: positions must be bound by value, not by order of appearance
    dyn = split.get('dyn')
    doc = 'v: {w: 100}\n'
    if dyn and 0 in int_args:
        items[items.index('0: 100')] = "0: !xref 'v.w'"
    doc += 'c: !%s:engine.targets.%s {%s}\n' % (mode, tname, ', '.join(items))
    note(doc=doc)
    exp = _expected_call(tname, int_args, name_args)
    if exp[0] == 'unspecified':
        wit('unspecified')
        return True
    if exp[0] == 'call':
        with untraced():
            ora = _run_oracle(tname, *exp[1])
    else:
        ora = exp
    note(expected=repr(ora))
    targets.LOG.clear()
    try:
        b = Builder()
        b.add_source(doc, raw_yaml=True)
        cfg = EvalContext().evaluate(b.build())
        res = cfg['c']
        if mode == 'bind':
            if not isinstance(res, functools.partial) or targets.LOG:
                note(got='bind did not return an unevaluated partial: ' + repr(res))
                return False
            if ora[0] == 'logged':
                # partial.func / args / keywords must be what Python would call
                if getattr(res.func, '__name__', None) != tname:
                    note(got='partial of ' + repr(res.func))
                    return False
                res()
            else:
                try:
                    res()
                except TypeError:
                    wit('error')
                    return True
                note(got='partial call succeeded: ' + repr(targets.LOG))
                return False
    except ayerr.EvalError as e:
        reraise_internal(e)
        note(error=repr(e.__cause__)[:200])
        wit('error')
        return ora[0] == 'error'
    except Exception as e:
        reraise_internal(e)
        note(error='unexpected ' + repr(e)[:300])
        return False
    note(log=repr(targets.LOG))
    if ora[0] != 'logged':
        return False
    wit('called')
    return len(targets.LOG) == 1 and targets.LOG[0] == ora[1]


def c13_forms(split, k):
    """list arguments are positions 0..n-1, a scalar argument is position 0, argument-less forms"""
    reset()
    k = pick(k, 6)
    mode = split['mode']
    form, exp_pos = [('[7, 8]', [7, 8]), ('[7]', [7]), ('5', [5]), ("'s'", ['s']), ('[]', []), ('[[1, 2], {a: 1}]', [[1, 2], {'a': 1}])][k]
    doc = 'c: !%s:engine.targets.f %s\n' % (mode, form)
    if split.get('simple') and k == 4:
        doc = 'c: !%s engine.targets.f\n' % mode
    note(doc=doc)
    try:
        b = Builder()
        b.add_source(doc, raw_yaml=True)
        cfg = EvalContext().evaluate(b.build())
        res = cfg['c']
        if mode == 'bind':
            if targets.LOG:
                return False
            res()
    except Exception as e:
        reraise_internal(e)
        note(error=repr(e)[:300])
        return False
    note(log=repr(targets.LOG))
    wit('called')
    return len(targets.LOG) == 1 and list(targets.LOG[0][1]) == exp_pos and targets.LOG[0][2] == ()


def c13_merge(split, dp, d, dp3, d3, fa=False):
    """merge table: stage 2 (and 3) merged onto `c: !call:f {a: 1, b: 2}`"""
    reset()
    kind = split['kind']
    if fa and kind not in ('fn_other', 'str_other'):
        return True      # an old argument with priority over the incoming node: claimed only where the target changes
    fa = bool(fa)
    base = 'c: !call:engine.targets.f {a: %s1, b: 2}\n' % ('!force ' if fa else '')
    flags = {}
    if dp:
        flags['delete'] = d
    eff_del = d if dp else None

    def fn_tag(name, fl, sname):
        t = site(sname, fl)          # '!metadata:<key>'
        return '!call:engine.targets.%s:%s' % (name, t[len('!metadata:'):])
    exp_t, exp_args = 'f', {'a': 1, 'b': 2}
    if kind == 'map':
        s2 = 'c: %s {b: 5, c: 6}\n' % site('s2', flags)
        if eff_del is True:
            exp_args = {'b': 5, 'c': 6}
        else:
            exp_args = {'a': 1, 'b': 5, 'c': 6}
    elif kind == 'list':
        if dp and not d:
            return True      # `!merge [..]` onto a function node: not in the table
        s2 = 'c: %s [7, 8]\n' % site('s2', flags)
        exp_args = {0: 7, 1: 8}
    elif kind == 'str_other':
        if dp:
            return True
        s2 = 'c: engine.targets.g\n'
        exp_t, exp_args = 'g', {}
    elif kind == 'fn_same':
        s2 = 'c: %s {b: 5, c: 6}\n' % fn_tag('f', flags, 's2')
        exp_args = {'a': 1, 'b': 5, 'c': 6} if eff_del is False else {'b': 5, 'c': 6}
    elif kind == 'fn_other':
        s2 = 'c: %s {b: 5, c: 6}\n' % fn_tag('g', flags, 's2')
        exp_t = 'g'
        exp_args = {'a': 1, 'b': 5, 'c': 6} if eff_del is False else {'b': 5, 'c': 6}      # old arguments go, forced or not
    docs = [base, s2]
    if split.get('third'):
        fl3 = {'delete': d3} if dp3 else {}
        t3 = split['third']
        if t3 == 'map':
            docs.append('c: %s {a: 9}\n' % site('s3', fl3))
            if dp3 and d3:
                if fa and 'a' in exp_args:
                    return True      # deleting a node that holds a surviving forced entry: C04's subject, not claimed here
                exp_args = {'a': 9}
            elif fa and 'a' in exp_args:
                pass             # the surviving forced argument keeps its value
            else:
                exp_args = dict(exp_args, a=9)
        elif t3 == 'str_other':
            if dp3:
                return True
            docs.append('c: engine.targets.h\n')
            exp_t, exp_args = 'h', {}
    note(docs=docs, expected=repr((exp_t, exp_args)))
    try:
        b = Builder()
        b.add_multiple_sources(*docs, raw_yaml=True)
        EvalContext().evaluate(b.build())
    except Exception as e:
        reraise_internal(e)
        note(error=repr(e)[:300])
        return False
    note(log=repr(targets.LOG))
    if len(targets.LOG) != 1:
        return False
    name, pos, kw = targets.LOG[0]
    exp_pos = tuple(exp_args[i] for i in sorted(k for k in exp_args if isinstance(k, int)))
    exp_kw = tuple(sorted((k, v) for k, v in exp_args.items() if isinstance(k, str)))
    wit('called')
    return name == exp_t and pos == exp_pos and kw == exp_kw


def _splits_args(tier):
    out = []
    for t in TARGETS:
        for mode in ('call', 'bind'):
            if tier == 'quick' and mode == 'bind' and t not in ('pos3', 'mixed', 'kwonly'):
                continue
            out.append({'target': t, 'mode': mode, 'dyn': False})
        out.append({'target': t, 'mode': 'call', 'dyn': True, '_pre': 'b0 and not b4 and not nz'})
    return out


def _splits_merge(tier):
    out = []
    for kind in ('map', 'list', 'str_other', 'fn_same', 'fn_other'):
        out.append({'kind': kind, 'third': None, '_pre': 'not dp3'})
        if tier != 'quick' or kind in ('fn_other', 'str_other'):
            out.append({'kind': kind, 'third': 'map'})
            out.append({'kind': kind, 'third': 'str_other', '_pre': 'not dp3'})
    return out


HARNESSES = {
    'c13_args': Harness('c13_args', c13_args,
                        [('b0', 'bool'), ('b1', 'bool'), ('b2', 'bool'), ('b3', 'bool'), ('b4', 'bool'), ('n0', 'bool'), ('n1', 'bool'), ('nk', 'bool'), ('nz', 'bool'), ('rev', 'bool')],
                        _splits_args, pre='(not b4 or b3) and (not nz or not nk) and (not rev or (b0 or b1 or b2 or b3))', doc='7 target signatures x any subset of positions 0..4 and of 4 names (symbolic presence) x call/bind', witnesses=('called', 'error')),
    'c13_forms': Harness('c13_forms', c13_forms, [('k', 'int', 0, 5)],
                         lambda tier: [{'mode': m, 'simple': s} for m in ('call', 'bind') for s in (False, True)],
                         doc='list / scalar / empty argument forms', witnesses=('called',)),
    'c13_merge': Harness('c13_merge', c13_merge, [('dp', 'bool'), ('d', 'bool'), ('dp3', 'bool'), ('d3', 'bool'), ('fa', 'bool')], _splits_merge,
                         doc='merge table of function nodes with symbolic delete flags and an optionally forced old argument, 2..3 stages', witnesses=('called',)),
}
