"""C09 - cross-references alias their target (identity), in any order, through chains; errors terminate."""
import sys
from engine.api import Harness
from engine.symlib import pick, reset, wit, note, untraced, reraise_internal
from awesomeyaml.builder import Builder
from awesomeyaml.config import Config
from awesomeyaml.eval_context import EvalContext
from awesomeyaml import errors as ayerr

PROPERTY = {
    'id': 'C09',
    'technique': 'CrossHair symbolic execution of evaluation (XRefNode chain loop, EvalContext caches) over reference graphs whose edges are symbolic target indices (exact decision-tree selectors); termination is checked as a safety assertion by a look-up counter installed through the public EvalContext extension point; oracle = graph reachability',
    'assumptions': [
        'termination monitor: more than 1000 get_node look-ups during one build of a <= 12-node config under a recursion limit of (current depth + 160) frames means divergence: a cycle through containers recurses and ends in RecursionError -> EvalError after fewer look-ups than frames (the chain-following loop is deterministic in the current node); every refuted path is replayed natively under a wall-clock watchdog, a native hang is reported as the violation',
        'reference graphs are over the listed positions only',
    ],
    'bounds': {'positions': "ref slots a, b (top level), m.x (in a mapping), l[1] (in a list), c (argument of a !call), z (second source); targets: a, b, m.x, l[1], m, l, d, d.v, c, missing; data positions hold non-empty containers or (variant) EMPTY lists / mappings",
               'quick': '3 symbolic slots (a, b, m.x) + fixed slots', 'thorough': '4 symbolic slots'},
    'outside': ['reference graphs with more than 6 reference nodes', 'references in !eval code (C12) and in included files (C06)'],
    'hang_is_violation': True,
    'replay_timeout': 30,
    'per_split_timeout': {'quick': 600, 'thorough': 1800},
    'wall_budget': {'quick': 1500, 'thorough': 7000},
}

TARGETS = ['a', 'b', 'm.x', 'l[1]', 'm', 'l', 'd', 'd.v', 'c', 's', 'nope.q']   # s: a string scalar whose text equals its own path
SLOTS = ['a', 'b', 'm.x', 'l[1]', 'c', 'z']
DIVERGED = [False]


class Diverged(Exception):
    pass


class MonCtx(EvalContext):
    def get_node(self, *path, **kw):
        self._lookups = getattr(self, '_lookups', 0) + 1
        if self._lookups > 1000:
            DIVERGED[0] = True
            raise Diverged('more look-ups than any terminating evaluation of this config needs')
        return super().get_node(*path, **kw)


def _oracle(edges):
    """edges: slot -> target path or None (slot holds data). returns ('err', why) or ('ok', {slot: final data path})"""
    contains = {'m': ['m.x'], 'l': ['l[1]'], 'd': [], 'd.v': [], 'c': [], 's': []}
    data_paths = {'m', 'l', 'd', 'd.v'}

    def deps(p):
        if p in edges and edges[p] is not None:
            return [edges[p]]
        return contains.get(p, [])

    exists = set(TARGETS[:-1]) | set(SLOTS)
    state = {}

    def visit(p):
        if p not in exists:
            return 'missing'
        if state.get(p) == 1:
            return 'cycle'
        if state.get(p) == 2:
            return None
        state[p] = 1
        for q in deps(p):
            r = visit(q)
            if r:
                return r
        state[p] = 2
        return None
    for s in SLOTS + ['m', 'l', 'd']:
        r = visit(s)
        if r:
            return ('err', r)
    final = {}
    for s, t in edges.items():
        if t is None:
            continue
        cur = t
        while cur in edges and edges[cur] is not None:
            cur = edges[cur]
        final[s] = cur
    return ('ok', final)


def _get(cfg, path):
    cur = cfg
    for part in path.replace('[', '.[').split('.'):
        if part.startswith('['):
            cur = cur[int(part[1:-1])]
        else:
            cur = cur[part]
    return cur


def c09_graph(split, ta, tb, tm, tl):
    reset()
    DIVERGED[0] = False
    old_limit = sys.getrecursionlimit()
    nt = len(TARGETS)
    sel = {'a': ta, 'b': tb, 'm.x': tm, 'l[1]': tl}
    edges = {}
    for slot in ('a', 'b', 'm.x', 'l[1]'):
        fixed = split['fixed'].get(slot)
        if fixed is not None:
            edges[slot] = None if fixed < 0 else TARGETS[fixed]
        else:
            k = pick(sel[slot], nt + 1)
            edges[slot] = None if k == nt else TARGETS[k]
    edges['c'] = TARGETS[split['c']] if split['c'] >= 0 else None
    edges['z'] = TARGETS[split['z']] if split['z'] >= 0 else None

    def val(slot, data):
        t = edges[slot]
        return data if t is None else ("!xref '%s'" % t)
    tag = '!ref' if split.get('ref_tag') else '!xref'
    if split.get('empty'):
        # every data position holds an EMPTY container: the evaluated targets are falsy objects, identity still has to hold
        doc1 = ('a: %s\nm: {x: %s, y: 5}\nl: [7, %s]\nc: !call:engine.targets.ident {x: %s}\nb: %s\nd: {v: []}\ns: s\n'
                % (val('a', '[]'), val('m.x', '{}'), val('l[1]', '[]'), val('c', '[]'), val('b', '{}')))
    else:
        doc1 = ('a: %s\nm: {x: %s, y: 5}\nl: [7, %s]\nc: !call:engine.targets.ident {x: %s}\nb: %s\nd: {v: [1, 2]}\ns: s\n'
                % (val('a', '[10]'), val('m.x', '{q: 11}'), val('l[1]', '[12]'), val('c', '[13]'), val('b', '{w: 14}')))
    doc1 = doc1.replace('!xref', tag)
    doc2 = 'z: %s\n' % val('z', '[]' if split.get('empty') else '[15]')
    note(doc1=doc1, doc2=doc2)
    exp = _oracle(edges)
    note(expected=repr(exp))
    try:
        with untraced():
            depth = 0
            f = sys._getframe()
            while f is not None:
                depth += 1
                f = f.f_back
        # the tight limit only saves time under the tracer; natively (replay) a generous one is used, so that a refactoring
        # which needs more frames per level can at worst produce a non-reproducing candidate, never a VIOLATION
        from engine.symlib import is_tracing
        sys.setrecursionlimit(depth + (160 if is_tracing() else 600))
        b = Builder()
        b.add_source(doc1, raw_yaml=True, filename='f1.yaml')
        b.add_source(doc2, raw_yaml=True, filename='f2.yaml')
        cfg = MonCtx().evaluate(b.build())      # low-level API: merge + evaluate (Config() only adds a deep copy, see C11/C19)
    except ayerr.EvalError as e:
        reraise_internal(e)
        note(error=repr(e)[:200])
        if DIVERGED[0]:
            note(diverged=True)
            return False
        wit('eval_error')
        return exp[0] == 'err'
    except Exception as e:
        reraise_internal(e)
        note(error='unexpected ' + repr(e)[:300], diverged=DIVERGED[0])
        return False
    finally:
        sys.setrecursionlimit(old_limit)
    if DIVERGED[0]:
        return False
    if exp[0] == 'err':
        note(got=repr(dict(cfg)))
        return False
    wit('built')
    for slot, fin in exp[1].items():
        got = _get(cfg, slot)
        want = _get(cfg, fin)
        if got is not want:
            note(identity_broken=slot, final=fin, got=repr(got), want=repr(want))
            return False
        wit('alias_checked')
        if slot != fin and len([s for s in exp[1] if exp[1][s] == fin]) > 1:
            wit('fan_in')
    return True


def c09_reuse(split, t1, t2, same_ctx):
    """the same EvalContext used for two builds: references of the second build see the second config only"""
    reset()
    DIVERGED[0] = False
    nt = 4
    names = ['d', 'e', 'late', 'nope']
    t1 = pick(t1, nt)
    t2 = pick(t2, nt)
    ctx = MonCtx()

    def doc(t, base):
        # r is a FORWARD reference (its target is written after it) or dangling; values differ between the two builds
        return 'r: !xref %s\nd: [%d]\ne: {v: %d}\nlate: [%d, 0]\n' % (names[t], base, base + 1, base + 2)
    outs = []
    for i, (t, base) in enumerate(((t1, 10), (t2, 20))):
        c = ctx if same_ctx else MonCtx()
        try:
            b = Builder()
            b.add_source(doc(t, base), raw_yaml=True)
            cfg = c.evaluate(b.build())
            outs.append(('ok', cfg))
        except ayerr.EvalError as e:
            reraise_internal(e)
            outs.append(('err', None))
        except Exception as e:
            reraise_internal(e)
            note(error='unexpected ' + repr(e)[:200])
            return False
    note(docs=[doc(t1, 10), doc(t2, 20)], same_ctx=bool(same_ctx), outcomes=[o[0] for o in outs])
    if DIVERGED[0]:
        return False
    for (t, base), (st, cfg) in zip(((t1, 10), (t2, 20)), outs):
        if names[t] == 'nope':
            if st != 'err':
                return False
            wit('dangling_reported')
            continue
        if st != 'ok':
            return False
        if cfg['r'] is not cfg[names[t]]:
            note(stale=repr(cfg['r']), expected=repr(cfg[names[t]]))
            return False
        wit('alias_checked')
    return True


def _splits(tier):
    out = []
    # fixed assignments: -1 = data, k >= 0 = reference to TARGETS[k]; absent = symbolic
    nt = len(TARGETS)
    if tier == 'quick':
        for lfix, c, z in ((0, 1, 9), (4, 3, 8)):
            for a in range(nt + 1):
                out.append({'fixed': {'l[1]': lfix, 'a': (a if a < nt else -1)}, 'c': c, 'z': z})
                if lfix == 0:
                    out.append({'fixed': {'l[1]': lfix, 'a': (a if a < nt else -1)}, 'c': c, 'z': z, 'empty': True})
        return out
    for c, z in ((-1, 0), (1, 7), (3, 9)):
        for a in range(nt + 1):
            out.append({'fixed': {'a': (a if a < nt else -1)}, 'c': c, 'z': z})
            if c == 1:
                out.append({'fixed': {'a': (a if a < nt else -1)}, 'c': c, 'z': z, 'empty': True})
    return out


HARNESSES = {
    'c09_reuse': Harness('c09_reuse', c09_reuse, [('t1', 'int', 0, 3), ('t2', 'int', 0, 3), ('same_ctx', 'bool')], lambda tier: [{}],
                         doc='two builds on one (or two) evaluation contexts with forward / dangling references', witnesses=('alias_checked', 'dangling_reported')),
    'c09_graph': Harness('c09_graph', c09_graph,
                         [('ta', 'int', 0, len(TARGETS)), ('tb', 'int', 0, len(TARGETS)), ('tm', 'int', 0, len(TARGETS)), ('tl', 'int', 0, len(TARGETS))],
                         _splits, doc='reference graphs over 6 positions in 2 sources; target of each symbolic slot chosen by the solver',
                         witnesses=('built', 'eval_error', 'alias_checked')),
}
