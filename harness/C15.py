"""C15 - merge laws: deterministic, idempotent, empty-neutral, key-order- and marker-neutral."""
from engine.api import Harness
from engine.symlib import pick, site, reset, wit, note, untraced, reraise_internal
from engine import refmodel as rm
from awesomeyaml.builder import Builder
from awesomeyaml.eval_context import EvalContext
from harness.C04 import older_spec, newer_spec, _flags

PROPERTY = {
    'id': 'C15',
    'technique': 'CrossHair symbolic execution of two related builds per path (metamorphic): a merge sequence with symbolic delete/priority flags vs. its transformed twin (rebuilt, last document repeated, empty document inserted at a symbolic position, keys permuted, !unsafe / !new marker added at a selector-chosen node); z3 decides equality on every path',
    'assumptions': [
        'metadata codec stub for !metadata:<token> sites (native replays use the real pickle codec)',
        'document families: the C04 family (flat focus, falsy leaves), a deep family (mapping chain a.b.c with lists 2..3 levels below the tagged nodes) and a root family (3 documents, symbolic priority on the ROOT of the first and last document, optional forced sub-tree in the middle one)',
    ],
    'bounds': {'stages': '2..3', 'marker positions': 'every node of every document of the deep family (root, a, b, c, lists) and root/focus of the C04 family',
               'flags': 'delete {absent,T,F} x priority {absent,-1,0,1} on one node of the newer document (+ a second delete site in the deep family)',
               'insert position': '0..n (symbolic)', 'permutation': 'reversal of the key order of every mapping of one document (selector)'},
    'outside': ['the explicit remove-this-key idiom for idempotence (value-less !del, !del {} / !del [])', 'key orders other than the original and its reversal',
                'adding !notnew / safe=True markers'],
    'per_split_timeout': {'quick': 600, 'thorough': 1800},
    'wall_budget': {'quick': 1500, 'thorough': 7000},
}


def _build(docs):
    b = Builder()
    b.add_multiple_sources(*docs, raw_yaml=True)
    root = b.build()
    return EvalContext().evaluate(root)


def _outcome(docs):
    try:
        return ('ok', _build(docs))
    except Exception as e:
        reraise_internal(e)
        return ('err', type(e).__name__)


def _reverse_keys(spec):
    if spec[0] == 'm':
        return ('m', [(k, _reverse_keys(c)) for k, c in reversed(spec[1])]) + tuple(spec[2:])
    if spec[0] == 'l':
        return ('l', [_reverse_keys(c) for c in spec[1]]) + tuple(spec[2:])
    return spec


def _count(spec):
    if spec[0] in ('s', 'vd'):
        return 1
    kids = [c for _, c in spec[1]] if spec[0] == 'm' else spec[1]
    return 1 + sum(_count(c) for c in kids)


def _mark(spec, pos, flag, ctr=None):
    """add a flag to the node at pre-order position pos (creating a site if the node has none)"""
    if ctr is None:
        ctr = [0]
    me = ctr[0]
    ctr[0] += 1
    if spec[0] == 'vd':
        return spec
    st = spec[2] if len(spec) > 2 else None
    if me == pos:
        if st:
            fl = dict(st[1])
            fl.update(flag)
            st = (st[0], fl)
        else:
            st = ('mk', dict(flag))
    if spec[0] == 's':
        return (spec[0], spec[1], st) + tuple(spec[3:])
    if spec[0] == 'm':
        return ('m', [(k, _mark(c, pos, flag, ctr)) for k, c in spec[1]], st)
    return ('l', [_mark(c, pos, flag, ctr) for c in spec[1]], st)


def _family(split, ppn, pn, dpn, dn, dp2, d2):
    sn = ('sn', _flags(ppn, pn, dpn, dn))
    if split['fam'] == 'flat':
        sa = ('sa', {'priority': 1}) if split.get('force_a') else None
        o = ('m', [('p', older_spec(split['older'], sa, None)), ('q', ('s', 99))], None)
        n = ('m', [('p', newer_spec(split['newer'], sn))], None)
        specs = [o, n]
        if split.get('third'):
            specs.append(('m', [('p', ('m', [('y', ('s', 20)), ('t', ('s', 0))], None))], None))
        return specs
    if split['fam'] == 'root':
        # flags on the ROOT of the first and of the last document (a root's own priority must not leak into what is merged into it)
        r1 = ('r1', {'priority': -1 if dn else 1}) if dpn else None
        r3 = ('r3', {'priority': pn}) if ppn else None
        sf = ('sf', {'priority': 1}) if dp2 else None
        d1 = ('m', [('a', ('s', 1))], r1)
        d2_ = ('m', [('b', ('s', 2)), ('s', ('m', [('x', ('s', 1)), ('y', ('m', [('z', ('s', 1))], None))], sf))], None)
        d3 = ('m', [('b', ('s', 3)), ('c', ('s', 4)), ('s', ('m', [('x', ('s', 2)), ('y', ('m', [('z', ('s', 2))], None))], None))], r3)
        return [d1, d2_, d3]
    # deep family: lists two and three levels below the tagged nodes
    s2 = ('s2', {'delete': d2}) if dp2 else None
    d1 = ('m', [('a', ('m', [('b', ('m', [('c', ('m', [('l', ('l', [('s', 1), ('s', 2), ('s', 3)], None)), ('k', ('s', 5))], None)),
                                          ('m', ('l', [('s', 4), ('s', 5)], None))], None)),
                             ('e', ('s', 1))], None))], None)
    d2_ = ('m', [('a', ('m', [('b', ('m', [('c', ('m', [('l', ('l', [('s', 7)], None))], None)), ('m', ('l', [('s', 8)], None))], s2))], sn))], None)
    specs = [d1, d2_]
    if split.get('third'):
        specs.append(('m', [('a', ('m', [('b', ('m', [('m', ('l', [('s', 0), ('s', 9), ('s', 9)], None))], None))], None))], None))
    return specs


def c15_laws(split, tr, pos, which, ppn, pn, dpn, dn, dp2, d2):
    reset()
    specs = _family(split, ppn, pn, dpn, dn, dp2, d2)
    n = len(specs)
    if tr != split['tr']:
        return True
    if 'which' in split and which != split['which']:
        return True
    if 'posr' in split and not (split['posr'][0] <= pos < split['posr'][1]):
        return True
    if (split['tr'] >= 4 or split['fam'] == 'deep') and ppn:
        return True
    tr = split['tr']
    which = pick(which, 3)
    if which >= n:
        return True
    if tr == 0:        # determinism
        specs2 = list(specs)
    elif tr == 1:      # repeat the last document (not for the explicit remove-this-key idiom)
        if split['fam'] == 'flat' and split['newer'] in (4, 5) and not split.get('third'):
            return True
        if which != 0:
            return True
        specs2 = list(specs) + [specs[-1]]
    elif tr == 2:      # empty mapping document at a symbolic position
        if which != 0:
            return True
        pos = pick(pos, 12)
        if pos > n:
            return True
        specs2 = list(specs)
        specs2.insert(pos, ('m', [], None))
    elif tr == 3:      # permute (reverse) the keys of every mapping of document `which`
        specs2 = list(specs)
        specs2[which] = _reverse_keys(specs[which])
    else:              # tr 4: !unsafe marker, tr 5: !new marker, at node `pos` of document `which`
        pos = pick(pos, 12)
        if pos >= _count(specs[which]):
            return True
        specs2 = list(specs)
        specs2[which] = _mark(specs[which], pos, {'safe': False} if tr == 4 else {'allow_new': True})
    docs1 = [rm.spec_text(s, site) for s in specs]
    docs2 = [rm.spec_text(s, site) for s in specs2]
    r1 = _outcome(docs1)
    r2 = _outcome(docs2)
    note(tr=tr, docs1=docs1, docs2=docs2, r1=repr(r1), r2=repr(r2))
    if r1[0] == 'err' or r2[0] == 'err':
        wit('error')
        return r1 == r2
    wit('built')
    wit('tr%d' % tr)
    return r1[1] == r2[1]      # dict equality: key order may differ, list order may not


def _splits(tier):
    out = []
    pairs = ((0, 0), (0, 1), (0, 3), (0, 4), (0, 5), (1, 2), (2, 0), (2, 3), (3, 6), (0, 2))
    if tier == 'quick':
        pairs = ((0, 0), (0, 3), (0, 5), (1, 2), (3, 6))
    for older, newer in pairs:
        for fa in (False, True):
            if tier == 'quick' and fa and newer != 0:
                continue
            for tr in range(6):
                out.append({'fam': 'flat', 'older': older, 'newer': newer, 'force_a': fa, 'third': False, 'tr': tr})
                if tier != 'quick':
                    out.append({'fam': 'flat', 'older': older, 'newer': newer, 'force_a': fa, 'third': True, 'tr': tr})
    deep = []
    for tr in range(6):
        for which in ((0, 1, 2) if tr >= 3 else (0,)):
            for posr in (([0, 4], [4, 8], [8, 12]) if tr >= 4 else ([0, 12],)):
                if which < 2:
                    deep.append({'fam': 'deep', 'third': False, 'tr': tr, 'which': which, 'posr': posr})
                if tier != 'quick' or tr in (1, 4):
                    deep.append({'fam': 'deep', 'third': True, 'tr': tr, 'which': which, 'posr': posr})
    root = [{'fam': 'root', 'tr': tr} for tr in (0, 1, 2, 3)]
    return deep + root + out


HARNESSES = {
    'c15_laws': Harness('c15_laws', c15_laws,
                        [('tr', 'int', 0, 5), ('pos', 'int', 0, 11), ('which', 'int', 0, 2),
                         ('ppn', 'bool'), ('pn', 'int', -1, 1), ('dpn', 'bool'), ('dn', 'bool'), ('dp2', 'bool'), ('d2', 'bool')],
                        _splits,
                        doc='two builds per path: merge sequence vs transformed twin (6 transformations), flags symbolic',
                        witnesses=('built',)),
}
