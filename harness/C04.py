"""C04 - !del / list replacement is exact, !merge is key-/index-wise, value-less !del removes, !clear empties."""
from engine.api import Harness
from engine.symlib import pick, site, reset, wit, note, untraced, reraise_internal, known
from engine import refmodel as rm
from awesomeyaml.builder import Builder
from awesomeyaml.eval_context import EvalContext
from awesomeyaml import errors as ayerr

PROPERTY = {
    'id': 'C04',
    'technique': 'CrossHair symbolic execution of the real merge code (ComposedNode/ConfigList.on_merge_impl, filter_nodes, _replace_*) on documents parsed by the real loader with symbolic delete/priority flags; oracle from the property statement executed on the same symbolic values; z3 decides every path',
    'assumptions': [
        'metadata codec stub for !metadata:<token> sites (native replays use the real pickle codec)',
        'leaf values are distinct concrete markers',
        'the oracle (engine/refmodel.py) is validated against the maintainers\' dict/ and list/ fixtures (###EXPECTED) on every run',
    ],
    'bounds': {'stages': '2 (quick) / 2..3 (thorough)', 'focus depth': '0..2 below the root, prefix keys from {w, x} so that keys below the deleting node coincide with ancestor keys; plus the focus being the document root itself (the deleting node is the root of the second document)',
               'older content': '5 variants (incl. falsy leaves with an inherited-mode list, protected empty containers) - originally 3 variants (mapping with nested mapping, list, mapping with ancestor-named key), priority sites on 2 entries + literal !force on a third',
               'newer node': '6 variants (mapping, nested mapping, list, mapping with ancestor-named weak key, empty mapping, value-less !del), delete in {absent,T,F}, priority in {absent,-1,0,1}'},
    'outside': ['deleting list over a list whose elements have different priorities', 'type change at the focus while older entries are protected',
                'value-less !del of a key that does not exist', 'lists nested below a !merge node (recursion of the mode is not stated)'],
    'per_split_timeout': {'quick': 600, 'thorough': 1800},
    'wall_budget': {'quick': 1500, 'thorough': 7000},
}

PREFIXES = [[], ['w'], ['x'], ['w', 'x']]


def older_spec(v, sa, sb):
    if v == 0:
        return ('m', [('x', ('s', 1, sa)), ('y', ('s', 2, sb)), ('z', ('m', [('u', ('s', 3)), ('v', ('s', 4, ('sc', {'priority': 1})))], None))], None)
    if v == 1:
        return ('l', [('s', 1), ('s', 2), ('s', 3)], sa)
    if v == 2:
        return ('m', [('w', ('s', 1, sa)), ('y', ('s', 2, sb)), ('n', ('m', [('w', ('s', 5))], None))], None)
    if v == 3:
        # falsy leaves and a list that inherits its mode from the newer mapping's tag
        return ('m', [('l', ('l', [('s', 1), ('s', 2)], sa)), ('e', ('s', 0, sb)), ('f', ('s', 3)), ('h', ('s', '', None, "''"))], None)
    if v == 4:
        # protected EMPTY containers below the focus
        return ('m', [('x', ('m', [], sa)), ('y', ('l', [], sb)), ('z', ('s', 1)), ('n', ('m', [('e', ('m', [], None))], None))], None)
    raise ValueError(v)


def newer_spec(v, sn):
    if v == 0:
        return ('m', [('x', ('s', 10)), ('n', ('s', 11))], sn)
    if v == 1:
        return ('m', [('z', ('m', [('u', ('s', 12))], None)), ('n', ('s', 11))], sn)
    if v == 2:
        return ('l', [('s', 10), ('s', 11)], sn)
    if v == 3:
        return ('m', [('w', ('s', 10, ('sd', {'priority': -1}))), ('k', ('s', 11))], sn)
    if v == 4:
        return ('m', [], sn)
    if v == 5:
        return ('vd',)
    if v == 7:
        return ('l', [('l', [], None), ('s', 5), ('m', [], None)], sn)      # empty containers as elements of a newer list
    if v == 6:
        return ('m', [('l', ('l', [('s', 0)], None)), ('e', ('s', '', ('se', {'priority': -1}), "''")), ('f', ('s', False, None, 'false')), ('h', ('s', None, None, 'null')), ('g', ('s', 0))], sn)
    raise ValueError(v)


def _build(docs):
    b = Builder()
    b.add_multiple_sources(*docs, raw_yaml=True)
    root = b.build()
    return root, EvalContext().evaluate(root)


def _flags(pp, p, dp=False, d=None):
    kw = {}
    if pp:
        kw['priority'] = p
    if dp:
        kw['delete'] = d
    return kw


def c04_delete(split, ppn, pn, dpn, dn, ppa, pa, ppb, pb, ppt, pt):
    reset()
    prefix = PREFIXES[split['prefix']]
    sn = ('sn', _flags(ppn, pn, dpn, dn))
    sa = ('sa', _flags(ppa, pa))
    sb = ('sb', _flags(ppb, pb))
    if split.get('root'):
        # the focus IS the document: the (possibly deleting) newer node is the root of the second document
        ospec = older_spec(split['older'], sa, sb)
        nspec = newer_spec(split['newer'], sn)
    else:
        ospec = rm.wrap_spec(('m', [('p', older_spec(split['older'], sa, sb)), ('q', ('s', 99))], None), prefix)
        nspec = rm.wrap_spec(('m', [('p', newer_spec(split['newer'], sn))], None), prefix)
    specs = [ospec, nspec]
    if split.get('third'):
        # a later stage writes into the focus again (history of length 3)
        st = ('st', _flags(ppt, pt))
        if split.get('root'):
            tspec = ('m', [('x', ('s', 20, st)), ('t', ('s', 21))], None)
        else:
            tspec = rm.wrap_spec(('m', [('p', ('m', [('x', ('s', 20, st)), ('t', ('s', 21))], None))], None), prefix)
        specs.append(tspec)
    docs = [rm.spec_text(s, site) for s in specs]
    note(docs=docs)
    try:
        stages = [rm.annotate(rm.spec_r(s), stage=i) for i, s in enumerate(specs)]
        expected = rm.plain(rm.fold(stages))
        exp_err = None
    except rm.Unspecified as e:
        wit('unspecified')
        note(unspecified=str(e))
        return True
    except rm.RefMergeError as e:
        expected = None
        exp_err = 'MergeError'
    note(expected=repr(expected), exp_err=exp_err)
    try:
        root, got = _build(docs)
    except ayerr.MergeError as e:
        reraise_internal(e)
        note(error=repr(e)[:300])
        wit('merge_error')
        return exp_err == 'MergeError'
    except Exception as e:
        reraise_internal(e)
        note(error=repr(e)[:300])
        return False
    note(got=repr(got))
    if exp_err:
        return False
    wit('built')
    ok = (got == expected)
    if ok and expected is not None and not split.get('root'):
        cur = expected
        for k in prefix:
            cur = cur[k]
        if 'p' not in cur:
            wit('key_removed')
        elif split['older'] != 1 and isinstance(cur['p'], dict) and ('y' in cur['p']) and split['newer'] in (0, 1, 3):
            wit('entry_survived')
    return ok


def c04_clear(split, k):
    """!clear leaves an empty container of the original kind (older content tag-free)"""
    reset()
    prefix = PREFIXES[split['prefix']]
    k = pick(k, 4)
    olds = ['{x: 1, y: {z: 2}}', '[1, [2], {a: 3}]', '{}', '[]']
    want = [{}, [], {}, []][k]
    o = '{p: ' + olds[k] + ', q: 99}'
    n = '{p: !clear }'
    for key in reversed(prefix):
        o = '{' + key + ': ' + o + '}'
        n = '{' + key + ': ' + n + '}'
    docs = [o, n]
    if split.get('third'):
        docs.append(n.replace('!clear', '{c: 1}' if k in (0, 2) else '[7]'))
        want = {'c': 1} if k in (0, 2) else [7]
    note(docs=docs)
    try:
        root, got = _build(docs)
    except Exception as e:
        reraise_internal(e)
        note(error=repr(e)[:300])
        return False
    cur = got
    for key in prefix:
        cur = cur[key]
    note(got=repr(got))
    wit('built')
    p = cur.get('p')
    okp = (p == want) and (isinstance(p, dict) if isinstance(want, dict) else type(p) is list)
    return okp and cur.get('q') == 99


def _splits_delete(tier):
    out = []
    for prefix in range(len(PREFIXES)):
        for older in range(5):
            for newer in range(8):
                if older == 4:
                    if newer not in (0, 1, 4, 5):
                        continue
                elif newer == 7:
                    if older != 1:
                        continue
                elif (older == 3) != (newer == 6) and not (older == 3 and newer in (4, 5)):
                    continue
                if tier == 'quick' and (prefix == 2 or (prefix == 1 and (older >= 3 or newer >= 6)) or (prefix == 3 and older in (0, 1) and newer in (1, 2, 4))):
                    continue
                for pre in ('ppn', 'not ppn'):
                    if tier == 'quick':
                        # quick: the literal-FORCE second older site is present for even variants only
                        pre = pre + (' and ppb' if (older + newer + prefix) % 2 == 0 else ' and not ppb')
                    out.append({'prefix': prefix, 'older': older, 'newer': newer, 'third': False, '_pre': pre})
                    if tier != 'quick' and newer in (0, 4, 5):
                        out.append({'prefix': prefix, 'older': older, 'newer': newer, 'third': True, '_pre': pre})
    # the deleting node is the ROOT of the second document (only the builder can adopt the node a replacing merge returns)
    for older, newer in ((0, 0), (0, 1), (2, 3), (3, 6), (0, 4), (4, 0), (4, 4)):
        for third in (False, True):
            if tier == 'quick' and third and (older, newer) not in ((0, 0), (0, 4)):
                continue
            for pre in ('ppn', 'not ppn'):
                out.append({'prefix': 0, 'root': True, 'older': older, 'newer': newer, 'third': third, '_pre': pre})
    return out


def _splits_clear(tier):
    return [{'prefix': p, 'third': t} for p in range(len(PREFIXES)) for t in (False, True)]


def prepare(tier):
    """oracle validation: the reference model must agree with every maintainer fixture in its domain"""
    import glob
    import yaml
    ok = 0
    bad = []
    import os
    repo = os.environ.get('VERIF_REPO') or '/repo'
    for f in sorted(glob.glob(repo + '/tests/yaml_files/dict/*_test.yaml') + glob.glob(repo + '/tests/yaml_files/list/*_test.yaml')):
        src = open(f).read()
        if '###ERROR' in src or '###EXPECTED' not in src:
            continue
        body, exp = src.split('###EXPECTED')
        try:
            docs = [rm.annotate(d, stage=i) for i, d in enumerate(rm.r_from_yaml(body))]
            got = rm.plain(rm.fold(docs))
        except rm.Unspecified:
            continue
        if got == yaml.load(exp, Loader=yaml.Loader):
            ok += 1
        else:
            bad.append(f)
    out = {'validated': ok, 'oracle_fixture_agreement': ok, 'oracle_fixture_disagreement': bad}
    if bad:
        out['machinery'] = [('oracle disagrees with maintainer fixtures', bad)]
    return out


PARAMS = [('ppn', 'bool'), ('pn', 'int', -1, 1), ('dpn', 'bool'), ('dn', 'bool'),
          ('ppa', 'bool'), ('pa', 'int', -1, 1), ('ppb', 'bool'), ('pb', 'int', 1, 1), ('ppt', 'bool'), ('pt', 'int', -1, 1)]

HARNESSES = {
    'c04_delete': Harness('c04_delete', c04_delete, PARAMS, _splits_delete,
                          doc='older content with priority sites <- newer node with symbolic delete/priority at a focus below 0..2 prefix keys (ancestor-named keys included); oracle = refmodel',
                          witnesses=('built', 'entry_survived', 'key_removed')),
    'c04_clear': Harness('c04_clear', c04_clear, [('k', 'int', 0, 3)], _splits_clear,
                         doc='!clear at depth 0..2 over mapping/list/empty containers; optionally followed by a stage that refills', witnesses=('built',)),
}
