"""C03 - priorities: highest-priority writer wins, latest among equals; container priority applies to
everything below; user metadata combined under the same rule."""
from engine.api import Harness
from engine.symlib import pick, site, reset, wit, note, untraced, reraise_internal, known
from awesomeyaml.builder import Builder
from awesomeyaml.config import Config
from awesomeyaml.eval_context import EvalContext
from awesomeyaml.nodes.node import ConfigNode
from awesomeyaml.nodes.dict import ConfigDict

PROPERTY = {
    'id': 'C03',
    'technique': 'CrossHair symbolic execution of Builder/merge code with symbolic priority flags injected through the real YAML loader; z3 decides every path; exact decision-tree selectors for shape',
    'assumptions': [
        'metadata codec stub: tag !metadata:<token> yields the (symbolic) kwargs that pickle.loads(bytes.fromhex(..)) would yield; native replays use the real pickle codec',
        'leaf values are distinct concrete markers (merge code never inspects scalar values)',
        'CPython 3.12, PyYAML 6.0.3, CrossHair 0.0.110 / z3 modelling of Python semantics',
    ],
    'bounds': {'stages': '2..3 quick / 2..4 thorough', 'leaf depth': '1..4 (a leaf up to three levels below the tagged container)', 'priority': 'absent|-1|0|1 per writer',
               'site position': 'leaf or any enclosing mapping (one priority site per writer)', 'values': 'all writers distinct, or (variant) consecutive writers repeat the value already there'},
    'outside': ['an explicit child priority below a differently prioritised container (statement open)',
                'type changes other than mapping<->scalar at the written path'],
    'per_split_timeout': {'quick': 300, 'thorough': 900},
    'wall_budget': {'quick': 1500, 'thorough': 7000},
}

KEYS = ['a', 'b', 'c', 'd']


def _doc(depth, pos, tag, val, extra_key, md_tag=None):
    """mapping chain a.b.c[:depth] ending in leaf `val`; `tag` placed on the node at level `pos`
    (0 = value of 'a' ... depth-1 = the leaf).  extra_key adds a sibling leaf next to the leaf."""
    # flow style, built inside-out
    leaf = f'{tag} {val}' if pos == depth - 1 and tag else str(val)
    inner = leaf
    for lvl in range(depth - 1, -1, -1):
        key = KEYS[lvl]
        body = f'{key}: {inner}'
        if lvl == depth - 1 and extra_key:
            body += f', {extra_key}: {val + 5}'
        if lvl == 0:
            return '{' + body + '}'
        t = (tag + ' ') if (pos == lvl - 1 and tag) else ''
        inner = t + '{' + body + '}'
    raise AssertionError


def c03_writers(split, pp1, p1, pp2, p2, pp3, p3, pp4, p4):
    """n stages write the same leaf; every writer's priority is a symbolic flag at a selected level"""
    reset()
    depth = split['depth']
    n = split['n']
    pos = split['pos']           # per stage: level of the site
    pres = [pp1, pp2, pp3, pp4][:n]
    prio = [p1, p2, p3, p4][:n]
    docs = []
    eff = []

    def val(i):
        # variant 'same': consecutive writers repeat the value that is already there (writers 0/1 and 2/3 coincide)
        return 10 * (i // 2 * 2 + 1) if split.get('same') else 10 * (i + 1)
    for i in range(n):
        flags = {}
        if pres[i]:
            flags['priority'] = prio[i]
            eff.append(prio[i])
        else:
            eff.append(0)
        # the site is always there (a tag without flags must be neutral: C01), user metadata on it
        md = {f'k{i}': i, 'shared': i}
        tag = site(f's{i}', flags, md)
        docs.append(_doc(depth, pos[i], tag, val(i), f'x{i}' if split.get('extra') else None))
    note(docs=docs)
    try:
        b = Builder()
        b.add_multiple_sources(*docs, raw_yaml=True)
        root = b.build()
        cfg = EvalContext().evaluate(root)      # low-level API: the deep copy made by Config() is C11/C19's subject
    except Exception as e:
        reraise_internal(e)
        note(error=repr(e))
        return False
    # oracle: highest effective priority, latest among equals
    best = 0
    for i in range(1, n):
        if eff[i] >= eff[best]:
            best = i
    node = cfg
    for lvl in range(depth):
        node = node[KEYS[lvl]]
    ok = (node == val(best))
    wit('builds')
    if best != n - 1:
        wit('older_writer_wins')
    # frame: sibling leaves of every stage survive (no deleting node anywhere)
    if split.get('extra'):
        parent = cfg
        for lvl in range(depth - 1):
            parent = parent[KEYS[lvl]]
        for i in range(n):
            if parent.get(f'x{i}') != 10 * (i + 1) + 5:
                ok = False
    # user metadata of the node that carries the sites: comparable when all sites sit on the same level
    # (a leaf or an enclosing mapping) - combined under the same rule, no key lost
    if len(set(pos[:n])) == 1:
        mnode = root
        for lvl in range(pos[0] + 1):
            mnode = mnode[KEYS[lvl]]
        md = mnode.ayns.metadata
        for i in range(n):
            if md.get(f'k{i}') != i:
                ok = False
        if md.get('shared') != best:
            ok = False
        wit('metadata_checked')
    note(result=repr(dict(cfg)), winner=best, eff=[int(e) for e in eff])
    return ok


def c03_kind_change(split, pp1, p1, pp2, p2, pp3, p3):
    """two mapping writers and one scalar writer at the same path: the scalar replaces the mapping iff its priority is
    at least the mapping's (= highest, latest among equals, of the mapping writers); otherwise the merged mapping stays"""
    reset()
    pres, prio = [pp1, pp2, pp3], [p1, p2, p3]
    eff = [prio[i] if pres[i] else 0 for i in range(3)]
    tags = [site(f's{i}', {'priority': prio[i]} if pres[i] else {}) for i in range(3)]
    order = split['order']           # position of the scalar writer among the three stages
    maps = ['a: %s {x: 1}', 'a: %s {y: 2}']
    docs = []
    effs = []
    mi = 0
    for k in range(3):
        if k == order:
            docs.append('a: %s 5' % tags[k])
            effs.append(('s', eff[k]))
        else:
            docs.append(maps[mi] % tags[k])
            effs.append(('m', eff[k], 'x' if mi == 0 else 'y'))
            mi += 1
    note(docs=docs)
    # fold: value kind + priority at path a
    cur = None
    for e in effs:
        if cur is None:
            cur = {'kind': e[0], 'prio': e[1], 'keys': {e[2]: e[1]} if e[0] == 'm' else None}
        elif cur['kind'] == 'm' and e[0] == 'm':
            cur['keys'][e[2]] = e[1]
            if e[1] >= cur['prio']:
                cur['prio'] = e[1]
        else:
            if e[1] >= cur['prio']:
                cur = {'kind': e[0], 'prio': e[1], 'keys': {e[2]: e[1]} if e[0] == 'm' else None}
    try:
        b = Builder()
        b.add_multiple_sources(*docs, raw_yaml=True)
        cfg = EvalContext().evaluate(b.build())
    except Exception as e:
        reraise_internal(e)
        note(error=repr(e))
        return False
    note(result=repr(dict(cfg)), expected=repr(cur))
    wit('builds')
    if cur['kind'] == 's':
        return cfg['a'] == 5
    wit('mapping_survives')
    vals = {'x': 1, 'y': 2}
    return isinstance(cfg['a'], dict) and dict(cfg['a']) == {k: vals[k] for k in cur['keys']}


def _splits(tier):
    out = []
    stages = [2, 3] if tier == 'quick' else [2, 3, 4]
    # depth 4: a leaf three levels below a tagged container (two writers, site levels 0/3)
    for pos in ((0, 3), (3, 0), (0, 0), (1, 0), (0, 2)):
        out.append({'depth': 4, 'n': 2, 'pos': list(pos), 'extra': False})
    if tier != 'quick':
        import itertools as _it
        for pos in _it.product(range(4), repeat=3):
            if 0 in pos:
                out.append({'depth': 4, 'n': 3, 'pos': list(pos), 'extra': False})
    for depth in (1, 2, 3):
        for n in stages:
            # positions: all combinations of site level per stage (leaf or any ancestor)
            import itertools
            for pos in itertools.product(range(depth), repeat=n):
                for extra in ((False, True) if depth > 1 else (False,)):
                    if tier == 'quick' and n == 3 and depth == 3 and extra:
                        continue
                    out.append({'depth': depth, 'n': n, 'pos': list(pos), 'extra': extra})
                    if n == 3 and not extra and (tier != 'quick' or depth <= 2):
                        out.append({'depth': depth, 'n': n, 'pos': list(pos), 'extra': extra, 'same': True})
    return out


HARNESSES = {
    'c03_kind_change': Harness('c03_kind_change', c03_kind_change,
                               [('pp1', 'bool'), ('p1', 'int', -1, 1), ('pp2', 'bool'), ('p2', 'int', -1, 1), ('pp3', 'bool'), ('p3', 'int', -1, 1)],
                               lambda tier: [{'order': o} for o in range(3)],
                               doc='two mapping writers and a scalar writer at one path in every order, priorities symbolic', witnesses=('builds', 'mapping_survives')),
    'c03_writers': Harness(
        'c03_writers', c03_writers,
        [('pp1', 'bool'), ('p1', 'int', -1, 1), ('pp2', 'bool'), ('p2', 'int', -1, 1),
         ('pp3', 'bool'), ('p3', 'int', -1, 1), ('pp4', 'bool'), ('p4', 'int', -1, 1)],
        _splits,
        doc='n stages write one leaf path through the real loader; priority of each writer symbolic, site level by split',
        witnesses=('builds', 'older_writer_wins'),
    ),
}
