"""C08 - !notnew (and command-line overrides) can change but never create paths."""
import copy
from engine.api import Harness
from engine.symlib import pick, site, reset, wit, note, untraced, reraise_internal
from awesomeyaml.builder import Builder
from awesomeyaml.config import Config
from awesomeyaml.eval_context import EvalContext
from awesomeyaml import errors as ayerr

PROPERTY = {
    'id': 'C08',
    'technique': 'CrossHair symbolic execution of the merge code (_require_all_new, flag inheritance) with symbolic allow_new (+ delete/safe) flags at two nesting levels of the overriding document, and of Config.process_cmdline/build_from_cmdline with selector-chosen override paths; oracle = path-set inclusion and frame condition on a plain Python model',
    'assumptions': ['metadata codec stub for flag sites (native replays use the real pickle codec)', 'values are markers; the written value is a scalar or a list'],
    'bounds': {'base': 'fixed config with mappings 3 levels deep and a list holding a mapping',
               'write paths': '10 (existing list replaced by a list of the same length, existing leaf, new leaf under existing mapping, two new levels, through a list index to an existing / a new key, index out of range, new top-level key, existing leaf replaced by a list, existing mapping replaced by a scalar)',
               'flags': 'outer site (document root) allow_new {absent,T,F} x delete {absent,F} x safe {absent,F}; inner site (depth 1 or 2 on the written path) allow_new {absent,T,F}',
               'cmdline': 'the same paths spelled a.b[i].c=value plus 5 paths with two consecutive indices g[i][j] into a list of lists, values: int, string, list; default !notnew'},
    'outside': ["a !notnew tag on a node that is itself new (the statement speaks of content BELOW a !notnew node)", 'keys containing . [ = in command-line syntax', 'mapping values on the command line'],
    'per_split_timeout': {'quick': 600, 'thorough': 1800},
    'wall_budget': {'quick': 1500, 'thorough': 7000},
}

BASE_TEXT = '{a: {b: {c: 1, l: [1, {k: 2}]}, e: 5, m: {x: 3}}, t: 0}'
BASE = {'a': {'b': {'c': 1, 'l': [1, {'k': 2}]}, 'e': 5, 'm': {'x': 3}}, 't': 0}
PATHS = [['a', 'b', 'c'], ['a', 'b', 'zz'], ['a', 'zz', 'y'], ['a', 'b', 'l', 1, 'k'], ['a', 'b', 'l', 1, 'zz'], ['a', 'b', 'l', 5, 'k'], ['zz'], ['a', 'e'], ['a', 'm'], ['a', 'b', 'l']]
# the command-line harness uses the same tree plus a list of lists (several consecutive indices in one component)
CBASE_TEXT = BASE_TEXT[:-1] + ', g: [[1, 2, 3], [4, 5]]}'
CBASE = dict(BASE, g=[[1, 2, 3], [4, 5]])
CPATHS = PATHS + [['g', 0, 2], ['g', 1, 0], ['g', 2, 0], ['g', 0, 1], ['g', 1, 2]]
VALUES = [('77', 77), ('[7, 8]', [7, 8]), ('txt', 'txt')]


def exists_prefix(model, path):
    """number of leading components of path that exist in model; 'bad' for an invalid list index"""
    cur = model
    for i, comp in enumerate(path):
        if isinstance(cur, dict):
            if comp not in cur:
                return i
            cur = cur[comp]
        elif isinstance(cur, list):
            if not (isinstance(comp, int) and -len(cur) <= comp < len(cur)):
                return 'bad'
            cur = cur[comp]
        else:
            return i
    return len(path)


def set_path(model, path, value):
    m = copy.deepcopy(model)
    cur = m
    for comp in path[:-1]:
        if isinstance(cur, dict) and comp not in cur:
            cur[comp] = {}
        cur = cur[comp]
    cur[path[-1]] = value
    return m


def render(path, vtext, s0, s1, j):
    """nested flow mappings along path; s0 tag on the root, s1 tag on the node at depth j (1-based below the root)"""
    inner = vtext
    depth = len(path)
    for i in range(depth - 1, -1, -1):
        comp = path[i]
        node = '{%s: %s}' % (comp, inner)
        if i == j and s1:
            node = s1 + ' ' + node
        inner = node
    return (s0 + ' ' if s0 else '') + inner


def c08_notnew(split, pi, vi, j, n0p, n0, n1p, n1, d0p, u0p):
    reset()
    pi = pick(pi, len(PATHS))
    vi = pick(vi, len(VALUES))
    path = PATHS[pi]
    j = pick(j, 3)
    if j == 0 or j >= len(path):
        j = None     # no inner site
    f0 = {}
    if n0p:
        f0['allow_new'] = n0
    if d0p:
        f0['delete'] = False
    if u0p:
        f0['safe'] = False
    f1 = {}
    if n1p:
        f1['allow_new'] = n1
    s0 = site('s0', f0) if (f0 or split.get('always_tag')) else ''
    s1 = site('s1', f1) if (j is not None and f1) else ''
    vtext, val = VALUES[vi]
    if d0p and isinstance(val, list):
        return True      # a list below a !merge root combines index-wise (C04), not the subject here
    doc = render(path, vtext, s0, s1, j)
    note(docs=[BASE_TEXT, doc], path=repr(path))
    pre = exists_prefix(BASE, path)
    # oracle: every NEW node strictly below a tagged node needs an effective allow_new of True
    exp_err = False
    if pre == 'bad':
        exp_err = True
    else:
        new_depths = list(range(pre + 1, len(path) + 1))      # nodes at depth 1..len(path) below the root; new ones are > pre
        if isinstance(val, list):
            # the elements of a list value are written paths of their own: path + [i]
            for i in range(len(val)):
                if exists_prefix(BASE, path + [i]) != len(path) + 1:
                    new_depths.append(len(path) + 1)
        for depth in new_depths:
            eff = True
            if n0p:
                eff = n0
            if j is not None and n1p and depth > j:
                eff = n1
            if not eff:
                exp_err = True
    exp = None if exp_err else set_path(BASE, path, val)
    note(expected=repr(exp), exp_err=exp_err)
    try:
        b = Builder()
        b.add_multiple_sources(BASE_TEXT, doc, raw_yaml=True)
        got = EvalContext().evaluate(b.build())
    except ayerr.MergeError as e:
        reraise_internal(e)
        msg = str(e)
        note(error=msg[:300])
        wit('merge_error')
        if not exp_err:
            return False
        return True
    except Exception as e:
        reraise_internal(e)
        note(error='unexpected ' + repr(e)[:300])
        return False
    note(got=repr(got))
    if exp_err:
        return False
    wit('built')
    return got == exp


def c08_cmdline(split, pi, vi, typo):
    reset()
    pi = pick(pi, len(CPATHS))
    vi = pick(vi, len(VALUES))
    path = list(CPATHS[pi])
    typo = pick(typo, 3)
    if typo == 1 and isinstance(path[0], str):
        path[0] = path[0] + 'x'            # mistyped first component
    elif typo == 2 and isinstance(path[-1], str):
        path[-1] = path[-1] + 'y'          # mistyped last component
    vtext, val = VALUES[vi]
    text = ''
    for comp in path:
        if isinstance(comp, int):
            text += '[%d]' % comp
        else:
            text += ('.' if text else '') + comp
    arg = '%s=%s' % (text, vtext)
    note(args=[CBASE_TEXT, arg])
    pre = exists_prefix(CBASE, path)
    exp_err = (pre == 'bad') or pre < len(path)
    if not exp_err and isinstance(val, list):
        # the elements of a list value are paths of their own (path[i]) and must exist as well
        exp_err = any(exists_prefix(CBASE, path + [i]) != len(path) + 1 for i in range(len(val)))
    exp = None if exp_err else set_path(CBASE, path, val)
    note(expected=repr(exp), exp_err=exp_err)
    try:
        got = Config.build_from_cmdline(CBASE_TEXT, arg)
    except ayerr.MergeError as e:
        reraise_internal(e)
        msg = str(e)
        note(error=msg[:400])
        wit('merge_error')
        if not exp_err:
            return False
        if pre == 'bad' or pre == len(path):
            return True
        missing = path[pre]
        return str(missing) in msg          # the error names a missing path
    except Exception as e:
        reraise_internal(e)
        note(error='unexpected ' + repr(e)[:300])
        return False
    note(got=repr(dict(got)))
    if exp_err:
        return False
    wit('built')
    return got == exp


REPL_KEYS = [('b', True), ('zz', False), ("'b.c'", False), ("'b.l[0]'", False), ('e', True), ("'m.x'", False)]


def c08_replace(split, ki, n0p, n0, dp, d):
    """a deleting node below !notnew replaces a whole subtree: its entries may only use paths that existed before -
    also when a key's TEXT spells an existing nested path (a.'b.c' is not a.b.c)"""
    reset()
    ki = pick(ki, len(REPL_KEYS))
    key, existed = REPL_KEYS[ki]
    f0 = {'allow_new': n0} if n0p else {}
    fd = {'delete': d} if dp else {}
    s0 = site('s0', f0) if f0 else ''
    sd = site('sd', fd) if fd else ''
    doc = (s0 + ' ' if s0 else '') + '{a: ' + (sd + ' ' if sd else '') + '{' + key + ': 5}}'
    note(docs=[BASE_TEXT, doc])
    deleting = bool(dp and d)
    notnew = bool(n0p and not n0)
    exp_err = notnew and not existed
    try:
        b = Builder()
        b.add_multiple_sources(BASE_TEXT, doc, raw_yaml=True)
        got = EvalContext().evaluate(b.build())
    except ayerr.MergeError as e:
        reraise_internal(e)
        note(error=str(e)[:300])
        wit('merge_error')
        return exp_err
    except Exception as e:
        reraise_internal(e)
        note(error='unexpected ' + repr(e)[:300])
        return False
    note(got=repr(got))
    if exp_err:
        return False
    wit('built')
    k = key.strip("'")
    if deleting:
        return got['a'] == {k: 5} and got['t'] == 0
    exp_a = dict(BASE['a'])
    exp_a[k] = 5
    return got['a'] == exp_a and got['t'] == 0


def _splits_notnew(tier):
    out = []
    for pi in range(len(PATHS)):
        for at in (False, True):
            if tier == 'quick' and at and pi not in (1, 4):
                continue
            out.append({'always_tag': at, '_pre': 'pi == %d' % pi})
    return out


HARNESSES = {
    'c08_notnew': Harness('c08_notnew', c08_notnew,
                          [('pi', 'int', 0, len(PATHS) - 1), ('vi', 'int', 0, len(VALUES) - 1), ('j', 'int', 0, 2),
                           ('n0p', 'bool'), ('n0', 'bool'), ('n1p', 'bool'), ('n1', 'bool'), ('d0p', 'bool'), ('u0p', 'bool')],
                          _splits_notnew, pre='(not d0p or not u0p)',
                          doc='override document writing one of 9 paths; allow_new flags symbolic at the root and at an inner node of the path', witnesses=('built', 'merge_error')),
    'c08_replace': Harness('c08_replace', c08_replace, [('ki', 'int', 0, len(REPL_KEYS) - 1), ('n0p', 'bool'), ('n0', 'bool'), ('dp', 'bool'), ('d', 'bool')],
                           lambda tier: [{}], doc='subtree replaced by a deleting node below a symbolic !notnew/!new root; keys incl. ones whose text spells an existing nested path',
                           witnesses=('built', 'merge_error')),
    'c08_cmdline': Harness('c08_cmdline', c08_cmdline,
                           [('pi', 'int', 0, len(CPATHS) - 1), ('vi', 'int', 0, len(VALUES) - 1), ('typo', 'int', 0, 2)],
                           lambda tier: [{'_pre': 'pi == %d' % pi} for pi in range(len(CPATHS))],
                           doc='Config.build_from_cmdline(base, "path=value") for existing / mistyped paths through mappings and list indices', witnesses=('built', 'merge_error')),
}
