"""C14 - a build succeeds iff no !required placeholder survives merging; the error lists every survivor."""
from engine.api import Harness
from engine.symlib import pick, reset, wit, note, untraced, reraise_internal
from engine import targets
from awesomeyaml.builder import Builder
from awesomeyaml.config import Config
from awesomeyaml import errors as ayerr

PROPERTY = {
    'id': 'C14',
    'technique': 'CrossHair symbolic execution of parse/merge/Config.check_missing over all 64 placements of !required on 6 positions (case splits) with symbolic selectors deciding which of them a later stage overrides or deletes; z3 decides every path; call log proves nothing ran before the error',
    'assumptions': ['recording callables engine.targets.f/g stand for arbitrary side-effecting targets'],
    'bounds': {'positions': 'top level, nested mapping (depth 2), list element, nested list in mapping, !call argument, !bind argument',
               'later stage': 'per position: untouched | overridden by a value | deleted (value-less !del) - symbolic', 'stages': '2 (quick) / 3 (thorough: the override arrives in stage 3, stage 2 re-adds one placeholder)'},
    'outside': ['placeholders inside !eval code', 'included files (C06)'],
    'per_split_timeout': {'quick': 600, 'thorough': 1800},
    'wall_budget': {'quick': 1500, 'thorough': 7000},
}

SLOTS = ['r0', 'n.d.r1', 'l[1]', 'n.k[0]', 'c.x', 'bd.y']


def _listed(msg, path):
    """is `path` named in the error text (as a whole path, whatever the quoting / layout of the message)"""
    import re
    return re.search(r'(?<![\w.\[\]])' + re.escape(path) + r'(?![\w.\[\]])', msg) is not None


def c14_required(split, a0, a1, a2, a3, a4, a5):
    reset()
    q0, q1, q2, q3, q4, q5 = [bool(split['bits'] & (1 << i)) for i in range(6)]
    req = [q0, q1, q2, q3, q4, q5]
    act = [a0, a1, a2, a3, a4, a5]

    def ph(i, plain):
        if req[i]:
            return '!required '
        return plain
    doc1 = ('r0: %s\nn: {d: {r1: %s, z: 1}, k: [%s, 2]}\nl: [1, %s, 3]\n'
            'c: !call:engine.targets.f {x: %s, w: 0}\nbd: !bind:engine.targets.g {y: %s}\n'
            % (ph(0, '10'), ph(1, '11'), ph(3, '13'), ph(2, '12'), ph(4, '14'), ph(5, '15')))
    # later stage: 0 = untouched, 1 = override, 2 = delete
    parts = {}
    for i in range(6):
        a = pick(act[i], 3)
        act[i] = a
    o = []
    if act[0] == 1:
        o.append('r0: 20')
    elif act[0] == 2:
        o.append('r0: !del ')
    nparts = []
    if act[1] == 1:
        nparts.append('d: {r1: 21}')
    elif act[1] == 2:
        nparts.append('d: {r1: !del }')
    if act[3] == 1:
        nparts.append('k: {0: 23}')
    elif act[3] == 2:
        nparts.append('k: [7]')
    if nparts:
        o.append('n: {' + ', '.join(nparts) + '}')
    if act[2] == 1:
        o.append('l: {1: 22}')
    elif act[2] == 2:
        o.append('l: [5]')
    if act[4] == 1:
        o.append('c: {x: 24}')
    elif act[4] == 2:
        o.append('c: {x: !del }')
    if act[5] == 1:
        o.append('bd: {y: 25}')
    elif act[5] == 2:
        o.append('bd: {y: !del }')
    doc2 = '{' + ', '.join(o) + '}'
    docs = [doc1, doc2]
    if split.get('three'):
        docs = [doc1, '{r0: !required }' if split['three'] == 1 else '{}', doc2]
    if split.get('inc'):
        # the subtree below `n` comes from an included template file (virtual file system)
        from engine import symlib
        symlib.install_vfs()
        inc = '{d: {r1: %s, z: 1}, k: [%s, 2]}\n' % (ph(1, '11'), ph(3, '13'))
        main = ('r0: %s\nn: !include inc.yaml\nl: [1, %s, 3]\nc: !call:engine.targets.f {x: %s, w: 0}\nbd: !bind:engine.targets.g {y: %s}\n'
                % (ph(0, '10'), ph(2, '12'), ph(4, '14'), ph(5, '15')))
        symlib.vfs_put('/proj/main.yaml', main)
        symlib.vfs_put('/proj/inc.yaml', inc)
        docs = ['/proj/main.yaml', doc2]
    survivors = [SLOTS[i] for i in range(6) if (req[i] or (i == 0 and split.get('three') == 1)) and act[i] == 0]
    note(docs=docs, survivors=survivors)
    try:
        if split.get('inc'):
            cfg = Config.build(*docs, raw_yaml=[False, True])
        else:
            cfg = Config.build(*docs, raw_yaml=True)
    except ayerr.Error as e:
        reraise_internal(e)
        note(error='awesomeyaml error ' + repr(e)[:300])
        return False
    except ValueError as e:
        reraise_internal(e)
        msg = str(e)
        note(error=msg[:400], log=repr(targets.LOG))
        wit('refused')
        if not survivors:
            return False
        if targets.LOG:
            return False        # something was evaluated before the error
        return all(_listed(msg, s) for s in survivors) and not any(_listed(msg, s) for s in SLOTS if s not in survivors)
    except Exception as e:
        reraise_internal(e)
        note(error='unexpected ' + repr(e)[:300])
        return False
    note(got=repr(dict(cfg)), log=repr(targets.LOG))
    if survivors:
        return False
    wit('built')
    return [e[0] for e in targets.LOG] == ['f']


ALIAS_DOC = '''defaults: &d {lr: !required , wd: 1}
exp_a: {<<: *d, name: a}
exp_b: {<<: *d}
loader: [&s !required , *s, 3]
'''
ALIAS_POS = ['defaults.lr', 'exp_a.lr', 'exp_b.lr', 'loader[0]', 'loader[1]']


def c14_alias(split, o0, o1, o2, o3, o4):
    """one placeholder object reachable under several paths (YAML anchors / merge keys): every position that is not
    overridden by the later stage is listed"""
    reset()
    ov = [o0, o1, o2, o3, o4]
    parts = []
    if ov[0]:
        parts.append('defaults: {lr: 1}')
    if ov[1]:
        parts.append('exp_a: {lr: 2}')
    if ov[2]:
        parts.append('exp_b: {lr: 3}')
    if ov[3] or ov[4]:
        parts.append('loader: {' + ', '.join('%d: %d' % (i, 7 + i) for i in (0, 1) if ov[3 + i]) + '}')
    docs = [ALIAS_DOC, '{' + ', '.join(parts) + '}']
    survivors = [ALIAS_POS[i] for i in range(5) if not ov[i]]
    note(docs=docs, survivors=survivors)
    try:
        Config.build(*docs, raw_yaml=True)
    except ayerr.Error as e:
        reraise_internal(e)
        note(error='awesomeyaml error ' + repr(e)[:300])
        return False
    except ValueError as e:
        reraise_internal(e)
        msg = str(e)
        note(error=msg[:400])
        wit('refused')
        return bool(survivors) and all(_listed(msg, s_) for s_ in survivors) and not any(_listed(msg, s_) for s_ in ALIAS_POS if s_ not in survivors)
    except Exception as e:
        reraise_internal(e)
        note(error='unexpected ' + repr(e)[:300])
        return False
    wit('built')
    return not survivors


def _splits(tier):
    out = []
    # the six placeholder bits are fixed per split (load balancing); the later-stage actions stay symbolic
    for bits in range(64):
        pre = ' and '.join(['True'] + ['a%d == 0' % i for i in range(6) if not bits & (1 << i)])
        if bin(bits).count('1') >= 4 and (bits & 1):
            for k in range(3):
                for k2 in (range(3) if (bits & 2) and bin(bits).count('1') >= 5 else (None,)):
                    out.append({'bits': bits, 'three': 0, 'inc': False, '_pre': pre + ' and a0 == %d' % k + ('' if k2 is None else ' and a1 == %d' % k2)})
        else:
            out.append({'bits': bits, 'three': 0, 'inc': False, '_pre': pre})
        if not (bits & 1) and not (bits & 48) and (bits & 10):
            out.append({'bits': bits, 'three': 0, 'inc': True, '_pre': pre})
        if tier != 'quick' and bits % 3 == 1:
            out.append({'bits': bits, 'three': 1, 'inc': False, '_pre': pre})
            out.append({'bits': bits, 'three': 2, 'inc': False, '_pre': pre})
    return out


HARNESSES = {
    'c14_alias': Harness('c14_alias', c14_alias, [('o0', 'bool'), ('o1', 'bool'), ('o2', 'bool'), ('o3', 'bool'), ('o4', 'bool')], lambda tier: [{}],
                         doc='a shared placeholder (anchors / merge keys) at 5 positions, later stage overrides a symbolic subset', witnesses=('built', 'refused')),
    'c14_required': Harness('c14_required', c14_required,
                            [('a0', 'int', 0, 2), ('a1', 'int', 0, 2), ('a2', 'int', 0, 2), ('a3', 'int', 0, 2), ('a4', 'int', 0, 2), ('a5', 'int', 0, 2)],
                            _splits,
                            pre='a3 != 1 and a4 != 2 and a5 != 1',
                            doc='6 positions x (placeholder? by case split) x (later stage: untouched/override/delete, symbolic; only placeholders are touched)', witnesses=('built', 'refused')),
}
