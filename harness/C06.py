"""C06 - streams are flattened in order: sources, multi-document files and !include agree; lookup order; !path."""
import os
import pathlib
from engine.api import Harness
from engine import symlib
from engine.symlib import pick, site, reset, wit, note, untraced, reraise_internal, install_vfs, vfs_put
from awesomeyaml.builder import Builder
from awesomeyaml.config import Config
from awesomeyaml.eval_context import EvalContext
from awesomeyaml import errors as ayerr

PROPERTY = {
    'id': 'C06',
    'technique': 'CrossHair symbolic execution of Builder.add_source/preprocess/flatten, IncludeNode.on_preprocess_impl, StreamNode premerge and PathNode evaluation on a virtual file system; the existence of every file in every lookup directory, the merge flags inside the documents and the way the sequence is split over sources/documents/includes are symbolic; z3 decides every path',
    'assumptions': [
        'virtual file system: awesomeyaml.builder.open / .os and awesomeyaml.nodes.path.os are replaced (module attributes only) by an in-memory table with cwd = /cwd; real OS file systems, symlinks and ~ expansion are outside the claim',
        'metadata codec stub for flag sites (native replays use the real pickle codec and the same virtual files)',
    ],
    'bounds': {'documents': '2..3 documents with list-valued keys overridden across the boundary; symbolic delete flag on the root and on a nested mapping of the 2nd document',
               'arrangements': '10 ways of splitting (incl. a multi-file top-level include followed by documents that are / contain includes) (separate sources, one multi-document source, top-level !include [..], n top-level includes, file + multi-document source, nested include, key: !include [..], deeper key, multi-document file included under a key)',
               'lookup': '2 included names x {including dir, cwd} existence symbolic (different content per directory), nested include relative to the directory the including file was found in',
               '!path': 'file / parent(n), n in 0..4 / cwd / abs, written in a file reached directly, via include from another directory, via nested include'},
    'outside': ['real file systems', '!rec', 'more than 3 files / include nesting deeper than 2'],
    'per_split_timeout': {'quick': 600, 'thorough': 1800},
    'wall_budget': {'quick': 1500, 'thorough': 7000},
}


def _docs(dp0, d0, dpm, dm, three):
    f0 = {'delete': d0} if dp0 else {}
    fm = {'delete': dm} if dpm else {}
    s0 = (site('r2', f0) + ' ') if f0 else ''
    sm = (site('m2', fm) + ' ') if fm else ''
    d1 = '{a: [1, 2, 3], m: {x: 1, l: [4, 5]}, k: 0}'
    d2 = s0 + '{a: [9], m: ' + sm + '{l: [7], y: 2}}'
    docs = [d1, d2]
    if three:
        docs.append('{m: {x: !force 5}, z: [1]}')
    return docs


def _build(sources, raw):
    b = Builder()
    b.add_multiple_sources(*sources, raw_yaml=raw)
    return EvalContext().evaluate(b.build())


def _outcome(sources, raw):
    try:
        return ('ok', _build(sources, raw))
    except Exception as e:
        reraise_internal(e)
        return ('err', type(e).__name__, str(e)[:300])


def c06_arrangements(split, arr, dp0, d0, dpm, dm):
    reset()
    install_vfs()
    three = split['three']
    docs = _docs(dp0, d0, dpm, dm, three)
    n = len(docs)
    arr = pick(arr, 10)
    base = _outcome(docs, True)
    for i, d in enumerate(docs):
        vfs_put('/proj/f%d.yaml' % (i + 1), d + '\n')
    names = ['f%d.yaml' % (i + 1) for i in range(n)]
    wrap = None
    if arr == 0:
        res = _outcome(['/proj/f%d.yaml' % (i + 1) for i in range(n)], False)
    elif arr == 1:
        res = _outcome(['\n---\n'.join(docs) + '\n'], True)
    elif arr == 2:
        vfs_put('/proj/main.yaml', '!include [%s]\n' % ', '.join(names))
        res = _outcome(['/proj/main.yaml'], False)
    elif arr == 3:
        vfs_put('/proj/main.yaml', '\n---\n'.join('!include %s' % nm for nm in names) + '\n')
        res = _outcome(['/proj/main.yaml'], False)
    elif arr == 4:
        res = _outcome(['/proj/f1.yaml', '\n---\n'.join(docs[1:]) + '\n'], [False, True])
    elif arr == 5:
        vfs_put('/proj/sub/g.yaml', '!include [../f1.yaml, ../f2.yaml]\n')
        vfs_put('/proj/main.yaml', '!include sub/g.yaml\n' + ''.join('---\n%s\n' % d for d in docs[2:]))
        res = _outcome(['/proj/main.yaml'], False)
    elif arr == 6:
        vfs_put('/proj/main.yaml', 'key: !include [%s]\n' % ', '.join(names))
        res = _outcome(['/proj/main.yaml'], False)
        wrap = ['key']
    elif arr == 7:
        vfs_put('/proj/main.yaml', 'o: {key: !include [%s], s: 1}\n' % ', '.join(names))
        res = _outcome(['/proj/main.yaml'], False)
        wrap = ['o', 'key']
    elif arr == 9:
        # a top-level include that expands to several documents, FOLLOWED by documents that are / contain includes
        if n < 3:
            return True
        vfs_put('/proj/main.yaml', '!include [f1.yaml, f2.yaml]\n---\n!include f3.yaml\n---\nextra: !include f1.yaml\n')
        res = _outcome(['/proj/main.yaml'], False)
        base = _outcome(docs + ['extra: ' + docs[0]], True)
    else:
        vfs_put('/proj/all.yaml', '\n---\n'.join(docs) + '\n')
        vfs_put('/proj/main.yaml', 'key: !include all.yaml\n')
        res = _outcome(['/proj/main.yaml'], False)
        wrap = ['key']
    note(docs=docs, arrangement=arr, base=repr(base), res=repr(res))
    if base[0] == 'err' or res[0] == 'err':
        wit('error')
        return base[0] == res[0] and base[1] == res[1]
    got = res[1]
    if wrap:
        for k in wrap:
            if not isinstance(got, dict) or k not in got:
                return False
            if k == 'o' and got[k].get('s') != 1:
                return False
            got = got[k]
    wit('built')
    wit('arr%d' % arr)
    return got == base[1]


def c06_lookup(split, e1p, e1c, e2p, e2c, e3a, e3c, safe_main):
    """main.yaml in /proj includes inc1.yaml and sub/inc2.yaml; each may exist next to the including file and/or in the
    working directory (different content); inc1 itself includes inc3.yaml (looked up next to the inc1 that was found)"""
    reset()
    install_vfs()
    form = split['form']     # 0: key: !include [a, b]; 1: two top-level includes
    if form == 0:
        vfs_put('/proj/main.yaml', 'k: !include [inc1.yaml, sub/inc2.yaml]\nmain: 1\n')
    else:
        vfs_put('/proj/main.yaml', '!include inc1.yaml\n---\n!include sub/inc2.yaml\n---\nmain: 1\n')
    nested = split['nested']
    inc3 = 'n: !include inc3.yaml\n' if nested else ''
    vfs_put('/proj/inc1.yaml', 'v1: proj\n' + inc3, e1p)
    vfs_put('/cwd/inc1.yaml', 'v1: cwd\n' + inc3, e1c)
    vfs_put('/proj/sub/inc2.yaml', 'v2: proj\n', e2p)
    vfs_put('/cwd/sub/inc2.yaml', 'v2: cwd\n', e2c)
    # inc3 next to whichever inc1 was found ("a"), or in the working directory
    found1 = 'proj' if e1p else ('cwd' if e1c else None)
    if nested:
        vfs_put('/proj/inc3.yaml', 'w: nextto_proj\n', e3a)
        vfs_put('/cwd/inc3.yaml', 'w: cwd\n', e3c)
    note(form=form, nested=nested)
    exp_missing = []
    if found1 is None:
        exp_missing.append('inc1.yaml')
    found2 = 'proj' if e2p else ('cwd' if e2c else None)
    if found2 is None:
        exp_missing.append('inc2.yaml')
    exp3 = None
    if nested and found1 is not None:
        if found1 == 'proj':
            exp3 = 'nextto_proj' if e3a else ('cwd' if e3c else None)
        else:
            exp3 = 'cwd' if e3c else None        # including dir == cwd
        if exp3 is None:
            exp_missing.append('inc3.yaml')
    try:
        b = Builder()
        b.add_source('/proj/main.yaml', safe=safe_main)
        root = b.build()
        cfg = EvalContext().evaluate(root)
    except ayerr.PreprocessError as e:
        reraise_internal(e)
        msg = str(e) + ' ' + repr(e.__cause__)
        note(error=msg[:400], exp_missing=exp_missing)
        wit('missing_reported')
        if not exp_missing:
            return False
        # the error names a file that was found nowhere (the first one in preprocessing order at least)
        return any(m in msg for m in exp_missing)
    except Exception as e:
        reraise_internal(e)
        note(error='unexpected ' + repr(e)[:300])
        return False
    note(got=repr(cfg), exp_missing=exp_missing)
    if exp_missing:
        return False
    wit('built')
    top = cfg['k'] if form == 0 else cfg
    ok = top.get('v1') == found1 and top.get('v2') == found2 and cfg.get('main') == 1
    if nested:
        ok = ok and top.get('n') == {'w': exp3}
    # every node of an included file carries the safety of the including source
    k = root['k'] if form == 0 else root
    for p, nd in k.ayns.nodes_with_paths():
        if nd.ayns.safe != bool(safe_main):
            note(unsafe_mismatch=str(p))
            return False
    return ok


def c06_path(split, n, e_proj, e_cwd, ref):
    """a !path node denotes a location relative to the file in which it was written, whichever way that file was reached"""
    reset()
    install_vfs()
    ref = pick(ref, 4)
    n = pick(n, 5)
    refs = ['file', 'parent(%d)' % n, 'cwd', 'abs(/opt/data)']
    body = 'p: !path:%s [x, y]\n' % refs[ref]
    way = split['way']       # 0 direct source, 1 include from /proj/main.yaml, 2 nested include, 3 key include
    vfs_put('/proj/a/b/inc.yaml', body, e_proj)
    vfs_put('/cwd/a/b/inc.yaml', body, e_cwd)
    if way == 0:
        src = '/proj/a/b/inc.yaml' if e_proj else '/cwd/a/b/inc.yaml'
        if not e_proj and not e_cwd:
            return True
        sources = [src]
        where = src
    else:
        if way == 1:
            vfs_put('/proj/main.yaml', '!include a/b/inc.yaml\n')
        elif way == 2:
            vfs_put('/proj/main.yaml', '!include mid.yaml\n')
            vfs_put('/proj/mid.yaml', 'q: 1\n---\n!include a/b/inc.yaml\n')
        else:
            vfs_put('/proj/main.yaml', 'k: !include a/b/inc.yaml\n')
        sources = ['/proj/main.yaml']
        where = '/proj/a/b/inc.yaml' if e_proj else ('/cwd/a/b/inc.yaml' if e_cwd else None)
    note(way=way, ref=refs[ref], where=where)
    try:
        cfg = _build(sources, False)
    except ayerr.PreprocessError as e:
        reraise_internal(e)
        wit('missing')
        return where is None
    except Exception as e:
        reraise_internal(e)
        note(error='unexpected ' + repr(e)[:300])
        return False
    if where is None:
        return False
    got = cfg['k']['p'] if way == 3 else cfg['p']
    with untraced():
        w = pathlib.PurePosixPath(where)
        if ref == 0:
            exp = w.joinpath('x', 'y')
        elif ref == 1:
            parents = list(w.parents)
            if n < len(parents):
                exp = parents[n].joinpath('x', 'y')
            else:
                exp = pathlib.PurePosixPath(os.path.normpath(str(parents[-1].joinpath(*(['..'] * (n - len(parents) + 1)), 'x', 'y'))))
        elif ref == 2:
            exp = pathlib.PurePosixPath('/cwd/x/y')
        else:
            exp = pathlib.PurePosixPath('/opt/data/x/y')
    note(got=str(got), expected=str(exp))
    wit('built')
    return str(got) == str(exp)


def _splits_arr(tier):
    out = []
    for three in (False, True):
        for a in range(10):
            if a == 9 and not three:
                continue
            if tier == 'quick' and three and a in (0, 4, 7):
                continue
            out.append({'three': three, '_pre': 'arr == %d' % a})
    return out


HARNESSES = {
    'c06_arrangements': Harness('c06_arrangements', c06_arrangements,
                                [('arr', 'int', 0, 9), ('dp0', 'bool'), ('d0', 'bool'), ('dpm', 'bool'), ('dm', 'bool')], _splits_arr,
                                doc='the same 2..3 documents split 9 ways over sources / documents / includes; symbolic delete flags in the 2nd document', witnesses=('built',)),
    'c06_lookup': Harness('c06_lookup', c06_lookup,
                          [('e1p', 'bool'), ('e1c', 'bool'), ('e2p', 'bool'), ('e2c', 'bool'), ('e3a', 'bool'), ('e3c', 'bool'), ('safe_main', 'bool')],
                          lambda tier: [{'form': f, 'nested': nst, '_pre': 'True' if nst else 'not e3a and not e3c'} for f in (0, 1) for nst in (False, True)],
                          doc='existence of every included file in the including directory and in cwd symbolic; lookup order, missing files, safety inheritance', witnesses=('built', 'missing_reported')),
    'c06_path': Harness('c06_path', c06_path,
                        [('n', 'int', 0, 4), ('e_proj', 'bool'), ('e_cwd', 'bool'), ('ref', 'int', 0, 3)],
                        lambda tier: [{'way': w} for w in range(4)],
                        pre='(ref == 1 or n == 0)',
                        doc='!path reference points for a file reached directly / by include / by nested include / under a key, found next to the including file or in cwd', witnesses=('built',)),
}
