"""C07 - unsafe content never reaches executed code, whatever is merged around it."""
from engine.api import Harness
from engine.symlib import pick, site, reset, wit, note, untraced, reraise_internal
from engine import targets
from awesomeyaml.builder import Builder
from awesomeyaml.config import Config
from awesomeyaml.eval_context import EvalContext
from awesomeyaml import errors as ayerr
from awesomeyaml.nodes.node import ConfigNode

PROPERTY = {
    'id': 'C07',
    'technique': 'CrossHair symbolic execution of parse (source-level safe flag), merge (_replace_self/_replace_other safety combination, implicit_safe propagation) and evaluation gates (_require_safe, require_all_safe) over merge histories of dynamic nodes; the safe flag of every source and the presence of an !unsafe marker at a selected node are symbolic; plus inductive-step lemma harnesses over arbitrary symbolic flag states of two nodes',
    'assumptions': [
        'one-sided oracle from the statement: IF a recording target ran / code was evaluated / a module attribute was imported THEN every stage that supplied the dynamic node, its target, an argument value or a value resolved by it is safe; refusing more than necessary is allowed (fail-safe), except that an all-safe history must run',
        'recording targets stand for arbitrary callables; eval code reports through a recording eval symbol',
        'metadata codec stub for !unsafe markers on already tagged nodes (native replays use the real pickle codec)',
    ],
    'bounds': {'scenarios': '25 merge histories (one through an !include on the virtual file system) (evaluated through Config and through the low-level EvalContext route) of 1..3 stages: call/bind/eval/f-string/import defined, argument override by mapping / list, placeholder filled later, target override by string / by another function node, plain mapping replaced by a call, data referenced by !xref / by evaluated code supplied before or after, overridden data',
               'flags': 'safe flag of each source symbolic; one !unsafe marker (symbolic presence) on the node / its wrapper / an argument / the referenced data of a selected stage'},
    'outside': ['!rec nodes, unsafe includes (C06 covers include safety inheritance)', 'more than 3 stages', 'evaluated code that reaches into the raw evaluation context on purpose (ayns.cfg / ayns.ctx): neither a resolved name nor a call argument'],
    'per_split_timeout': {'quick': 600, 'thorough': 1800},
    'wall_budget': {'quick': 1500, 'thorough': 7000},
}

F = 'engine.targets.f'
G = 'engine.targets.g'


def _dyn(kind, target, args, mk):
    """text of a function node; mk = optional metadata key for an !unsafe marker on the node itself"""
    suffix = (':' + mk[len('!metadata:'):]) if mk else ''
    return '!%s:%s%s {%s}' % (kind, target, suffix, args)


def scenario(k, marks):
    """returns (stage documents, contributors, observer) for scenario k.
    marks[i] = tag text of the !unsafe marker for stage i ('' if absent); contributors = stage indices whose
    content ends up in what is executed (node tag, target name, surviving argument values, resolved data)."""
    m = marks

    def plain(i, text):
        return (m[i] + ' ' + text) if m[i] else text

    def dyn(i, kind, target, args):
        return _dyn(kind, target, args, m[i])
    if k == 0:
        return ['x: ' + dyn(0, 'call', F, 'a: 1')], [0], 'f'
    if k == 1:
        return ['x: ' + dyn(0, 'call', F, 'a: 1'), 'x: ' + plain(1, '{a: 2}')], [0, 1], 'f'
    if k == 2:
        return ['x: ' + plain(0, '{a: 2}'), 'x: ' + dyn(1, 'call', F, 'a: 1')], [1], 'f'
    if k == 3:
        return ['x: ' + dyn(0, 'call', F, 'a: !required '), 'x: ' + plain(1, '{a: 5}')], [0, 1], 'f'
    if k == 4:
        return ['x: ' + dyn(0, 'call', F, 'a: 1'), 'x: ' + plain(1, G)], [0, 1], 'g'
    if k == 5:
        return ['x: ' + dyn(0, 'call', F, 'a: 1'), 'x: ' + dyn(1, 'call', G, 'c: 3')], [1], 'g'
    if k == 6:
        return ['d: ' + plain(0, '7'), 'x: ' + dyn(1, 'call', F, 'a: !xref d')], [0, 1], 'f'
    if k == 7:
        return ['x: ' + dyn(0, 'call', F, 'a: !xref d'), 'd: ' + plain(1, '7')], [0, 1], 'f'
    if k == 8:
        return ['d: ' + plain(0, '7'), 'x: ' + (m[1] and ('!eval:' + m[1][len('!metadata:'):]) or '!eval') + ' "rec(d)"'], [0, 1], 'ident'
    if k == 9:
        return ['d: ' + plain(0, '7'), 'd: ' + plain(1, '8'), 'x: ' + dyn(2, 'call', F, 'a: !xref d')], [1, 2], 'f'
    if k == 10:
        return ['x: ' + dyn(0, 'bind', F, 'a: 1'), 'x: ' + plain(1, '{b: 2}')], [0, 1], 'bind'
    if k == 11:
        return ['x: ' + dyn(0, 'call', F, 'a: 1'), 'x: ' + plain(1, '[3]')], [0, 1], 'f'
    if k == 12:
        return ['w: ' + plain(0, '{x: !call:%s {a: 1}}' % F), 'w: ' + plain(1, '{x: {a: 2}}')], [0, 1], 'f'
    if k == 13:
        return ['d: ' + plain(0, '{v: 7}'), 'x: ' + dyn(1, 'call', F, 'a: !xref d.v'), 'x: ' + plain(2, '{b: 1}')], [0, 1, 2], 'f'
    if k == 14:
        return ["x: !import 'engine.targets.SIGNATURE_TARGETS'" if not m[0] else "x: !unsafe {y: !import 'engine.targets.SIGNATURE_TARGETS'}", 'z: ' + plain(1, '1')], [0], 'import'
    if k == 15:
        return ['d: ' + plain(0, '7'), 'w: ' + m[1] + "\n  x: f'{rec(d)}'" , 'd: ' + plain(2, '9')], [1, 2], 'ident'
    if k == 16:
        # the !unsafe tag directly on an f-string scalar (literal tag: the marker of this scenario is always present)
        return ["x: !unsafe f'{rec(1)}'"], ['marked'], 'ident'
    if k == 17:
        # a container evaluated EARLIER (cached) that holds an unsafe child, passed to a call through !xref
        return ['d: {v: ' + plain(0, '7') + ', w: 1}', 'x: ' + dyn(1, 'call', F, 'a: !xref d')], [0, 1], 'f'
    if k == 18:
        # an intermediate reference evaluated earlier whose target comes from another stage
        return ['d: ' + plain(0, '7'), 'r: ' + (m[1] and ('!xref:' + m[1][len('!metadata:'):]) or '!xref') + ' d', 'x: ' + dyn(2, 'call', F, 'a: !xref r')], [0, 1, 2], 'f'
    if k == 19:
        # explicit safe=True on a node below an !unsafe node does not make its content safe again
        return ["w: !unsafe {x: !metadata{{'safe': True}} {y: !call:%s {a: 1}}}" % F], ['marked'], 'f'
    if k == 20:
        # a later stage marks the enclosing mapping !unsafe without touching the call: the call is then below an !unsafe node
        return ['w: ' + plain(0, '{x: !call:%s {a: 1}}' % F), 'w: ' + plain(1, '{y: 1}')], [0, 'mark1'], 'f'
    if k == 21:
        # a dynamic node in a file INCLUDED by (possibly) unsafe content: stage 0 = main file, stage 1 overrides an argument
        from engine import symlib
        symlib.install_vfs()
        symlib.vfs_put('/proj/inc.yaml', 'c: !call:%s {a: 1}\nv: 2\n' % F)
        symlib.vfs_put('/proj/main.yaml', 'w: ' + (m[0] + ' ' if m[0] else '') + '{i: !include inc.yaml, z: 0}\n')
        return ['/proj/main.yaml', 'w: ' + plain(1, '{i: {c: {b: 3}}}')], [0, 1], 'f'
    if k == 22:
        # a nested dynamic argument evaluated first, then an unsafe plain argument of the same call
        return ['x: !call:%s {a: !call:%s {k: 1}, b: %s}' % (F, G, plain(0, '7'))], [0], 'f'
    if k == 23:
        # ... the later argument reaches the unsafe value through a reference, the earlier one is evaluated code
        return ['d: ' + plain(0, '7'), 'x: ' + dyn(1, 'call', F, 'a: !eval "1 + 1", b: !xref d')], [0, 1], 'f'
    if k == 24:
        # evaluated code names an entry that was evaluated EARLIER and holds an unsafe child
        return ['d: {v: ' + plain(0, '7') + ', w: 1}', 'x: ' + (m[1] and ('!eval:' + m[1][len('!metadata:'):]) or '!eval') + ' "rec(d)"'], [0, 1], 'ident'
    if k == 25:
        # the older container is forced and keeps winning; a later stage overrides the FUNCTION NAME with a forced entry
        return ['w: !force {x: !call:%s {a: 1}}' % F, 'w: ' + plain(1, '{x: !force %s}' % G)], [('src', 0), 1], 'g'
    if k == 26:
        # ... or an ARGUMENT of the call
        return ['w: !force {x: !call:%s {a: 1}}' % F, 'w: ' + plain(1, '{x: !force {a: 2}}')], [('src', 0), 1], 'f'
    if k == 27:
        # ... two levels down, the override being a whole forced mapping
        return ['w: !force {m: {x: !call:%s {a: 1}}}' % F, 'w: ' + plain(1, '{m: !force {x: {b: 2}}}')], [('src', 0), 1], 'f'
    raise ValueError(k)


NSCEN = 28


def c07_history(split, s0, s1, s2, u, mark, low):
    reset()
    k = split['scenario']
    safes = [s0, s1, s2]
    mark = pick(mark, 3)
    marks = ['', '', '']
    if u:
        marks[mark] = site('u%d' % mark, {'safe': False})
    docs, contributors, observer = scenario(k, marks)
    n = len(docs)
    if mark >= n and u:
        return True
    note(docs=docs, scenario=k)
    ctx = EvalContext(eval_symbols={'rec': targets.ident})
    ran = False
    err = None
    try:
        b = Builder()
        for i, d in enumerate(docs):
            b.add_source(d, raw_yaml=not d.startswith('/proj/'), safe=safes[i])
        if low:
            cfg = ctx.evaluate(b.build())          # the documented low-level route (no deep copy)
        else:
            cfg = Config(b.build(), eval_ctx=ctx)
        val = cfg.get('x', cfg.get('w'))
        if observer == 'bind':
            ran = True        # the target was imported and bound on behalf of the node
        elif observer == 'import':
            ran = True
    except (ayerr.UnsafeError, ayerr.EvalError) as e:
        reraise_internal(e)
        err = e
        chain_unsafe = False
        cur = e
        depth = 0
        while cur is not None and depth < 10:
            if isinstance(cur, ayerr.UnsafeError):
                chain_unsafe = True
            cur = cur.__cause__
            depth += 1
        note(error=repr(e)[:200], unsafe_in_chain=chain_unsafe)
        if not chain_unsafe:
            return False          # failed for some other reason: not what the statement prescribes
    except Exception as e:
        reraise_internal(e)
        note(error='unexpected ' + repr(e)[:300])
        return False
    logged = [e_[0] for e_ in targets.LOG]
    if observer in ('f', 'g', 'ident') and observer in logged:
        ran = True
    note(log=repr(targets.LOG), ran=ran)
    all_safe = True
    for i in contributors:
        if i == 'marked':
            all_safe = False          # the scenario text itself carries an !unsafe tag
        elif i == 'mark1':
            if u and mark == 1:
                all_safe = False      # only the explicit marker of stage 1 taints, not its source flag
        elif isinstance(i, tuple):
            if not safes[i[1]]:
                all_safe = False      # only the source flag of this stage matters: its text has no place for the marker
        else:
            if not safes[i]:
                all_safe = False
            if u and mark == i:
                all_safe = False
    if ran:
        wit('ran')
        if not all_safe:
            return False        # VIOLATION: executed although a contributing stage is unsafe
        if err is not None:
            return True
        if observer in ('f', 'g') and logged.count(observer) != 1:
            return False
        return True
    wit('refused')
    # fail-safe refusals are fine, but a history in which every stage is safe and nothing is marked must run
    every_safe = all(safes[i] for i in range(n)) and not u and 'marked' not in contributors
    if every_safe:
        return False
    return True


def c07_lemma(split, sa, da, sb, db, which, io=None, ia=None):
    ib = io          # the inherited flag of the node that is merged IN (it sits inside another container); the receiving node's own
                     # inherited flag is re-derived by its parent after the merge and stays outside the step
    """inductive step over arbitrary flag states: merging can only spread unsafety.
    safe(result) => safe(a) and safe(b), for _replace_self / _replace_other on nodes with any (explicit, inherited, source) flags"""
    reset()
    a = ConfigNode(1)
    b = ConfigNode(2)
    a._safe, a._implicit_safe, a._default_safe = sa, ia, da
    b._safe, b._implicit_safe, b._default_safe = sb, ib, db
    safe_a, safe_b = a.ayns.safe, b.ayns.safe
    if which:
        r = a._replace_other(b)
    else:
        r = a._replace_self(b)
    wit('stepped')
    return (not r.ayns.safe) or (safe_a and safe_b)


def c07_lemma_composed(split, sa, da, sb, db, which, promo, io=None):
    ia, ib = (None, io) if which in (0, 1) else (io, None)      # io: inherited flag of the node that is merged in
    """the same step for containers incl. type promotion (a plain mapping replacing / replaced by a function node)"""
    reset()
    from awesomeyaml.nodes.dict import ConfigDict
    from awesomeyaml.nodes.call import CallNode
    a = CallNode('engine.targets.f', {'a': 1}) if promo else ConfigDict({'a': 1})
    b = ConfigDict({'b': 2})
    a._safe, a._implicit_safe, a._default_safe = sa, ia, da
    b._safe, b._implicit_safe, b._default_safe = sb, ib, db
    safe_a, safe_b = a.ayns.safe, b.ayns.safe
    if which == 0:
        r = a._replace_other(b, allow_promotions=True)
    elif which == 1:
        r = a._replace_self(b, allow_promotions=True)
    elif which == 2:
        r = b._replace_other(a, allow_promotions=True)
    else:
        r = b._replace_self(a, allow_promotions=True)
    wit('stepped')
    return (not r.ayns.safe) or (safe_a and safe_b)


def _splits(tier):
    out = []
    for k in range(NSCEN):
        out.append({'scenario': k})
    return out


HARNESSES = {
    'c07_history': Harness('c07_history', c07_history,
                           [('s0', 'bool'), ('s1', 'bool'), ('s2', 'bool'), ('u', 'bool'), ('mark', 'int', 0, 2), ('low', 'bool')], _splits,
                           pre='u or mark == 0',
                           doc='merge histories of dynamic nodes; source safety of every stage and one !unsafe marker symbolic; one-sided taint oracle',
                           witnesses=('ran', 'refused')),
    'c07_lemma': Harness('c07_lemma', c07_lemma,
                         [('sa', 'optbool'), ('da', 'bool'), ('sb', 'optbool'), ('db', 'bool'), ('which', 'bool'), ('io', 'optbool')],
                         lambda tier: [{}], doc='one merge step from an arbitrary flag state of two leaf nodes (explicit and source flags of both, inherited flag of the node merged in): safe(result) => safe(a) and safe(b)', witnesses=('stepped',)),
    'c07_lemma_composed': Harness('c07_lemma_composed', c07_lemma_composed,
                                  [('sa', 'optbool'), ('da', 'bool'), ('sb', 'optbool'), ('db', 'bool'), ('which', 'int', 0, 3), ('promo', 'bool'), ('io', 'optbool')],
                                  lambda tier: [{'_pre': 'which == %d' % w} for w in range(4)],
                                  doc='the same step for containers with type promotion (function node vs plain mapping)', witnesses=('stepped',)),
}
