#!/bin/bash
# Idempotent, offline: build the /verif/.venv overlay (the repo's own interpreter + CrossHair + z3
# from the local wheelhouse).  awesomeyaml itself is an editable install of /repo inside /venv, so
# every run sees /repo's current working tree.
set -e
cd "$(dirname "$0")"
PY=.venv/bin/python
if [ -x "$PY" ] && "$PY" -c "import crosshair, z3, yaml, awesomeyaml" 2>/dev/null; then
    exit 0
fi
rm -rf .venv
/venv/bin/python -m venv .venv
SP=$(.venv/bin/python -c "import sysconfig; print(sysconfig.get_paths()['purelib'])")
echo "import site; site.addsitedir('/venv/lib/python3.12/site-packages')" > "$SP/_base_venv.pth"
PIP_NO_INDEX=1 .venv/bin/pip install -q --no-index --find-links /opt/veriftools/wheels crosshair-tool z3-solver >/dev/null
"$PY" -c "import crosshair, z3, yaml, awesomeyaml; assert awesomeyaml.__file__.startswith('/repo/'), awesomeyaml.__file__"
