"""C20 engine: thread schedules as solver variables (predictive analysis over recorded shared-memory events).

1. the state cells named by the property are wrapped from here (no repo change): accesses to
   ConfigNode._default_filename / ._default_safe (class slots, through a metaclass data descriptor so that even
   re-binding the slot is seen) and errors._api_entered, plus every attribute access on the objects held there;
   a cell is thread-private iff the object holding it is a threading.local.
2. every thread of a scenario is run ALONE and its event sequence is recorded.
3. z3: one integer time-stamp per event, program order per thread, read-from = latest earlier write to the cell.
   Query: is there a schedule in which some read observes a value written by another thread that differs from
   the recorded one, all earlier reads being unchanged (first divergence)?  unsat => in every interleaving (at
   event granularity, finer than Python lines) every read returns what it returned alone, so - the code being
   deterministic - every thread computes its sequential result.  sat => the model is a schedule, replayed with
   REAL threads under a baton-passing scheduler; only a replay whose observable results differ from the
   sequential ones is reported; a benign candidate is blocked and the query repeated.
"""
import os
import sys
import json
import time
import shutil
import tempfile
import threading
import traceback
import importlib


class Sched:
    def __init__(self):
        self.mode = 'off'
        self.ev = {}
        self.cnt = {}
        self.order = []
        self.order_set = set()
        self.pos = 0
        self.cv = threading.Condition()
        self.free = False
        self.names = {}
        self.timeouts = 0
        self.quiet = set()      # cells no thread of the scenario writes: their reads are no scheduling points

    def name(self):
        return self.names.get(threading.get_ident())

    def point(self, kind, cell, val):
        if self.mode == 'off':
            return
        th = self.name()
        if th is None:
            return
        if self.mode == 'replay' and cell in self.quiet:
            return
        i = self.cnt.get(th, 0)
        self.cnt[th] = i + 1
        if self.mode == 'record':
            self.ev.setdefault(th, []).append((kind, cell, val))
            return
        with self.cv:
            while not self.free:
                if self.pos >= len(self.order):
                    self.free = True
                    break
                if self.order[self.pos] == (th, i):
                    self.pos += 1
                    self.cv.notify_all()
                    return
                if (th, i) not in self.order_set:
                    self.free = True
                    self.cv.notify_all()
                    break
                if not self.cv.wait(timeout=3.0):
                    self.timeouts += 1
                    self.free = True
                    self.cv.notify_all()
                    break

    def done(self, th):
        with self.cv:
            self.order = self.order[:self.pos] + [e for e in self.order[self.pos:] if e[0] != th]
            self.order_set = set(self.order)
            self.cv.notify_all()


S = Sched()


def _val(v):
    try:
        hash(v)
        return v if isinstance(v, (str, int, bool, float, type(None))) else repr(v)
    except TypeError:
        return repr(v)


_MUTATORS = {'append', 'pop', 'extend', 'insert', 'remove', 'clear', 'update', 'setdefault', 'add', 'discard', 'popitem', 'sort', 'reverse',
             '__setitem__', '__delitem__', '__iadd__', '__ior__'}


class MutProxy:
    """a mutable container (list/dict/set) found in a wrapped cell: every method call on it is an event on that cell -
    mutators are writes (value = content afterwards), everything else is a read of the current content"""

    def __init__(self, cell, target):
        object.__setattr__(self, '_c', cell)
        object.__setattr__(self, '_t', target)

    def _call(self, name, *a, **kw):
        t = object.__getattribute__(self, '_t')
        cell = object.__getattribute__(self, '_c')
        if name in _MUTATORS:
            S.point('W', cell, 'mutating:' + name)       # scheduling point before the mutation
            r = getattr(t, name)(*a, **kw)
            ev = S.ev.get(S.name())
            if S.mode == 'record' and ev:
                ev[-1] = ('W', cell, repr(t))             # recorded value = content after the write
            return r
        S.point('R', cell, repr(t))
        return getattr(t, name)(*a, **kw)

    def __getattr__(self, name):
        return lambda *a, **kw: self._call(name, *a, **kw)

    def __iter__(self):
        return self._call('__iter__')

    def __len__(self):
        return self._call('__len__')

    def __bool__(self):
        return bool(self._call('__len__'))

    def __getitem__(self, k):
        return self._call('__getitem__', k)

    def __setitem__(self, k, v):
        return self._call('__setitem__', k, v)

    def __delitem__(self, k):
        return self._call('__delitem__', k)

    def __contains__(self, k):
        return self._call('__contains__', k)


def _digest(t):
    try:
        return repr(t) if len(t) <= 64 else 'len=%d' % len(t)
    except Exception:
        return '<unrepresentable>'


def _rec_class(base, reads):
    """a real dict/list/set subclass (passes isinstance checks and C-level uses) whose Python-level accesses are events on one SHARED cell"""
    ns = {'__slots__': ()}

    def mk(name, write):
        orig = getattr(base, name)
        if write:
            def m(self, *a, **kw):
                cell = REC_CELLS.get(id(self))
                if cell is None:
                    return orig(self, *a, **kw)
                S.point('W', cell, 'mutating:' + name)
                r = orig(self, *a, **kw)
                ev = S.ev.get(S.name())
                if S.mode == 'record' and ev:
                    ev[-1] = ('W', cell, _digest_raw(base, self))
                return r
        else:
            def m(self, *a, **kw):
                cell = REC_CELLS.get(id(self))
                if cell is not None:
                    S.point('R', cell, _digest_raw(base, self))
                return orig(self, *a, **kw)
        m.__name__ = name
        return m
    for name in reads:
        if hasattr(base, name):
            ns[name] = mk(name, False)
    for name in _MUTATORS:
        if hasattr(base, name):
            ns[name] = mk(name, True)
    return type('Rec' + base.__name__.capitalize(), (base,), ns)


def _digest_raw(base, obj):
    try:
        n = base.__len__(obj)
        return base.__repr__(obj) if n <= 64 else 'len=%d' % n
    except Exception:
        return '<unrepresentable>'


REC_CELLS = {}
_READS = ('__getitem__', 'get', '__contains__', '__iter__', '__len__', 'keys', 'values', 'items', 'copy', 'index', 'count', '__eq__', '__bool__')
RecDict = _rec_class(dict, _READS)
RecList = _rec_class(list, _READS)
RecSet = _rec_class(set, _READS)


class Proxy:
    """records attribute reads/writes on the wrapped object"""

    def __init__(self, name, target):
        object.__setattr__(self, '_n', name)
        object.__setattr__(self, '_t', target)

    def _cell(self, a):
        t = object.__getattribute__(self, '_t')
        n = object.__getattribute__(self, '_n')
        private = False
        if isinstance(t, threading.local):
            # only what lives in the per-thread dict is thread-private; class attributes of a threading.local
            # subclass (e.g. a mutable default) are shared by all threads
            try:
                private = a in object.__getattribute__(t, '__dict__') or not hasattr(type(t), a)
            except AttributeError:
                private = True
        return (n, a, S.name() if private else '*')

    def __getattr__(self, a):
        t = object.__getattribute__(self, '_t')
        cell = self._cell(a)
        try:
            v = getattr(t, a)
        except AttributeError:
            S.point('R', cell, '<missing>')
            return getattr(t, a)
        if isinstance(v, (list, dict, set)):
            return MutProxy(cell, v)
        if callable(v) and not isinstance(v, type):
            # a method of the holder object: run it with the proxy as `self`, so that its own accesses are recorded
            import types
            if isinstance(v, types.MethodType) and v.__self__ is t:
                return types.MethodType(v.__func__, self)
            return v
        S.point('R', cell, _val(v))
        return getattr(t, a)      # re-read after having been scheduled

    def __setattr__(self, a, v):
        S.point('W', self._cell(a), _val(v))
        setattr(object.__getattribute__(self, '_t'), a, v)

    def __delattr__(self, a):
        S.point('W', self._cell(a), '<missing>')
        delattr(object.__getattribute__(self, '_t'), a)


class Slot:
    """metaclass data descriptor: every read / re-binding of a class-level slot is an event on a SHARED cell"""

    def __init__(self, name, initial):
        self.name = name
        self.gen = 0
        self.proxy = Proxy(name, initial)

    def __get__(self, cls, metacls=None):
        if cls is None:
            return self
        S.point('R', ('slot', self.name, '*'), self.gen)
        return self.proxy

    def __set__(self, cls, value):
        self.gen += 1
        S.point('W', ('slot', self.name, '*'), self.gen)
        self.proxy = Proxy(self.name, value)


INSTALLED = {}


def install():
    """wrap the cells named by the property; returns a description for the evidence"""
    from awesomeyaml.nodes.node import ConfigNode, ConfigNodeMeta
    from awesomeyaml import errors
    desc = []
    for attr in ('_default_filename', '_default_safe'):
        cur = ConfigNode.__dict__[attr]
        slot = Slot(attr, cur)
        setattr(ConfigNodeMeta, attr, slot)        # data descriptor on the metaclass wins over the class __dict__ entry
        INSTALLED[attr] = slot
        desc.append('%s.%s (%s)' % ('ConfigNode', attr, type(cur).__name__))
    cur = errors._api_entered
    errors._api_entered = Proxy('api', cur)
    desc.append('errors._api_entered (%s)' % type(cur).__name__)
    desc.extend(wrap_containers())
    return desc


def wrap_containers():
    """every plain dict/list/set held at module or class level of the package becomes a recording subclass instance:
    a build that writes one of them (e.g. a memo table moved from the instance to the class) produces events on a shared cell"""
    import awesomeyaml
    import pkgutil
    out = []
    kinds = {dict: RecDict, list: RecList, set: RecSet}
    for m in pkgutil.walk_packages(awesomeyaml.__path__, 'awesomeyaml.'):
        try:
            mod = importlib.import_module(m.name)
        except Exception:
            continue
        holders = [(mod, m.name)]
        for k, v in list(vars(mod).items()):
            if isinstance(v, type) and v.__module__ == m.name:
                holders.append((v, '%s.%s' % (m.name, v.__name__)))
        for holder, hname in holders:
            for k, v in list(vars(holder).items()):
                if k.startswith('__') or type(v) not in kinds:
                    continue
                try:
                    rec = kinds[type(v)](v)
                    setattr(holder, k, rec)
                except (TypeError, AttributeError):
                    continue
                REC_CELLS[id(rec)] = ('container', '%s.%s' % (hname, k), '*')
                out.append('%s.%s (%s, recording subclass)' % (hname, k, type(v).__name__))
    return out


def shared_state_inventory():
    """static inventory of module-/class-level mutable state of the package (reported in the evidence)"""
    import awesomeyaml
    import pkgutil
    out = []
    for m in pkgutil.walk_packages(awesomeyaml.__path__, 'awesomeyaml.'):
        try:
            mod = importlib.import_module(m.name)
        except Exception:
            continue
        for k, v in vars(mod).items():
            if k.startswith('__'):
                continue
            if isinstance(v, (dict, list, set, threading.local)) or type(v).__name__ in ('Proxy',):
                out.append('%s.%s:%s' % (m.name, k, type(v).__name__))
            if isinstance(v, type) and v.__module__ == m.name:
                for ck, cv in vars(v).items():
                    if not ck.startswith('__') and (isinstance(cv, (dict, list, set, threading.local)) or type(cv).__name__ in ('Proxy', 'Slot')):
                        out.append('%s.%s.%s:%s' % (m.name, v.__name__, ck, type(cv).__name__))
    return sorted(set(out))


# ------------------------------------------------------------------------------------------------

def run_body(name, spec, results):
    """one thread of a scenario: build through its own Builder; observable result = per-node (path, file, safe) or the error"""
    from awesomeyaml import Builder
    from awesomeyaml.eval_context import EvalContext
    S.names[threading.get_ident()] = name
    try:
        b = Builder()
        for src, safe in spec['sources']:
            b.add_source(src, safe=safe)
        r = b.build()
        res = sorted((str(p), n.ayns.source_file, n.ayns.safe) for p, n in r.ayns.nodes_with_paths())
        if spec.get('evaluate'):
            try:
                res.append(('EVAL', repr(EvalContext().evaluate(r))))
            except Exception as e:
                res.append(('EVALERR', type(e).__name__))
        results[name] = res
    except Exception as e:
        results[name] = ('EXC', type(e).__name__, str(e).split('\n')[0][:200])
    finally:
        S.done(name)


def record_sequential(threads):
    # warm-up (unrecorded): lazily filled package caches (scalar type tables) are full before anything is recorded
    S.mode = 'off'
    S.names = {}
    warm = {}
    for name, spec in threads:
        th = threading.Thread(target=run_body, args=(name, spec, warm))
        th.start()
        th.join()
    S.mode = 'record'
    S.ev = {}
    S.cnt = {}
    S.names = {}
    S.quiet = set()
    res = {}
    for name, spec in threads:
        th = threading.Thread(target=run_body, args=(name, spec, res))
        th.start()
        th.join()
    S.mode = 'off'
    written = {e[1] for evs in S.ev.values() for e in evs if e[0] == 'W'}
    S.quiet = {e[1] for evs in S.ev.values() for e in evs} - written
    # events on quiet cells are dropped (and not counted during replays): no schedule can make such a read observe a write
    return res, {k: [e for e in v if e[1] not in S.quiet] for k, v in S.ev.items()}


def replay(threads, order):
    S.mode = 'replay'
    S.order = list(order)
    S.order_set = set(order)
    S.pos = 0
    S.cnt = {}
    S.free = False
    S.names = {}
    res = {}
    ths = [threading.Thread(target=run_body, args=(name, spec, res)) for name, spec in threads]
    for t in ths:
        t.start()
    for t in ths:
        t.join(60)
    S.mode = 'off'
    return res


def solve_scenario(threads, max_candidates=400):
    """returns dict(verdict='unsat'|'violation'|'benign_exhausted', ...)"""
    import z3
    seq, E = record_sequential(threads)
    allev = [(th, i, e) for th, evs in E.items() for i, e in enumerate(evs)]
    stats = {'events': len(allev), 'queries': 0, 'solver_time': 0.0, 'candidates_replayed': 0, 'threads': len(threads)}
    if not allev:
        return {'verdict': 'unsat', 'stats': stats, 'seq': seq, 'note': 'no events'}
    s = z3.Solver()
    ts = {(th, i): z3.Int('t_%s_%d' % (th, i)) for th, i, e in allev}
    s.add(z3.Distinct(*ts.values()))
    for th in E:
        for i in range(len(E[th]) - 1):
            s.add(ts[(th, i)] < ts[(th, i + 1)])

    def writes(cell):
        return [(th, i, e) for th, i, e in allev if e[0] == 'W' and e[1] == cell]

    def observes(th, i, e, t2, j):
        """the read (th, i) returns what write (t2, j) stored: the write is the latest one to the cell before the read"""
        c = [ts[(t2, j)] < ts[(th, i)]]
        for t3, k, w3 in writes(e[1]):
            if (t3, k) != (t2, j):
                c.append(z3.Not(z3.And(ts[(t2, j)] < ts[(t3, k)], ts[(t3, k)] < ts[(th, i)])))
        return z3.And(c)

    def differing(th, i, e):
        return [(t2, j) for t2, j, w in writes(e[1]) if t2 != th and w[2] != e[2]]

    def sees_recorded(th, i, e):
        return z3.Not(z3.Or([observes(th, i, e, t2, j) for t2, j in differing(th, i, e)] or [z3.BoolVal(False)]))

    reads = [(th, i, e) for th, i, e in allev if e[0] == 'R']
    shared_reads = [(th, i, e) for th, i, e in reads if differing(th, i, e)]
    stats['reads'] = len(reads)
    stats['reads_with_foreign_writes'] = len(shared_reads)
    if not shared_reads:
        # no read can ever observe another thread's write: trivially unsat, still discharged by the solver
        s.add(z3.BoolVal(False))
    # one divergence variable per (read, foreign write) pair: the read is the FIRST one (in time) that returns something else
    # than when its thread ran alone, and it returns what that write stored
    rec = {(th, i): z3.Bool('rec_%s_%d' % (th, i)) for th, i, e in shared_reads}
    for th, i, e in shared_reads:
        s.add(rec[(th, i)] == sees_recorded(th, i, e))
    dv, dv_info = [], []
    for th, i, e in shared_reads:
        before = [z3.Implies(ts[(t2, j)] < ts[(th, i)], rec[(t2, j)]) for t2, j, e2 in shared_reads if (t2, j) != (th, i)]
        for t2, j in differing(th, i, e):
            b = z3.Bool('div_%d' % len(dv))
            s.add(b == z3.And(observes(th, i, e, t2, j), *before))
            dv.append(b)
            dv_info.append(((th, i, e), (t2, j, E[t2][j])))
    stats['read_write_pairs'] = len(dv)
    if dv:
        s.add(z3.Or(dv))
    tries = 0
    while True:
        t0 = time.perf_counter()
        r = s.check()
        stats['solver_time'] += time.perf_counter() - t0
        stats['queries'] += 1
        if str(r) == 'unsat':
            return {'verdict': 'unsat' if tries == 0 else 'benign_exhausted', 'stats': stats, 'seq': seq}
        if str(r) != 'sat':
            return {'verdict': 'unknown', 'stats': stats, 'seq': seq}
        m = s.model()
        which = [k for k, b in enumerate(dv) if z3.is_true(m.eval(b))]
        order = [(th, i) for th, i, e in sorted(allev, key=lambda x: m[ts[(x[0], x[1])]].as_long())]
        res = replay(threads, order)
        stats['candidates_replayed'] += 1
        if res != seq:
            diff = {}
            for name in seq:
                if res.get(name) != seq[name]:
                    a, b_ = seq[name], res.get(name)
                    if isinstance(a, list) and isinstance(b_, list):
                        diff[name] = [(x, y) for x, y in zip(a, b_) if x != y][:4]
                    else:
                        diff[name] = (a if not isinstance(a, list) else a[:2], b_ if not isinstance(b_, list) else b_[:2])
            return {'verdict': 'violation', 'stats': stats, 'seq': seq, 'schedule': order,
                    'divergent_reads': [[str(x) for x in dv_info[k]] for k in which][:3], 'diff': diff}
        for k in which:
            s.add(z3.Not(dv[k]))
        tries += 1
        if tries >= max_candidates:
            return {'verdict': 'benign_exhausted', 'stats': stats, 'seq': seq, 'note': 'candidate budget reached'}
