"""C20 engine, part 2: source-level instrumentation of the package, regenerated from /repo's source at import time.

An import hook compiles every module of the `awesomeyaml` package from its current source through an AST
transformer, so that accesses to state that lives on CLASSES and MODULES of the package become events of the
schedule encoding (engine/sched_smt.py):

  obj.attr            (load)   ->  _vrec_get(obj, 'attr')         a read event iff the attribute is found on a class
                                                                   (or metaclass) / module of the package, not in the instance
  T.attr = v / += / del        ->  _vrec_pre(T, 'attr'); <stmt>; _vrec_post(T, 'attr')
                                                                   a write event iff T is a class or module of the package
  X = v  with `global X`       ->  _vrec_preg / _vrec_postg      a write event on the module cell; loads of such names are reads

Instance attributes, locals and closures are thread-private by construction (every thread builds through its own
builder) and produce no events.  Cells nobody writes during a scenario are dropped before encoding (sched_smt).
The builtins setattr()/delattr() called from package code are routed through the same write hooks.
Not instrumented (counted and listed in the evidence): attribute stores whose object expression is not side-effect
free, `for x.attr in ...` / `with ... as x.attr`; code outside the package (PyYAML, the standard library).
"""
import ast
import sys
import types
import builtins
import importlib.abc
import importlib.machinery

PKG = 'awesomeyaml'
STATS = {'modules': [], 'loads': 0, 'stores': 0, 'global_stores': 0, 'global_loads': 0, 'skipped': []}


def _pkg(modname):
    return isinstance(modname, str) and (modname == PKG or modname.startswith(PKG + '.'))


def _simple(e):
    """expression that may be evaluated twice without side effects"""
    if isinstance(e, ast.Name):
        return True
    if isinstance(e, ast.Attribute):
        return _simple(e.value)
    if isinstance(e, ast.Call) and isinstance(e.func, ast.Name) and e.func.id in ('type', 'super') and not e.keywords:
        return all(_simple(a) for a in e.args)
    return False


class _Scope:
    def __init__(self, node):
        self.globals = set()
        self.locals = set()
        if node is not None:
            a = node.args
            for x in a.posonlyargs + a.args + a.kwonlyargs + [a.vararg, a.kwarg]:
                if x is not None:
                    self.locals.add(x.arg)
            for n in ast.walk(node):
                if isinstance(n, ast.Global):
                    self.globals.update(n.names)
            for n in ast.walk(node):
                if isinstance(n, ast.Name) and isinstance(n.ctx, (ast.Store, ast.Del)) and n.id not in self.globals:
                    self.locals.add(n.id)


class Instr(ast.NodeTransformer):
    def __init__(self, modname, tree):
        self.modname = modname
        self.cls = []
        self.scopes = []
        self.G = set()
        for n in ast.walk(tree):
            if isinstance(n, ast.Global):
                self.G.update(n.names)

    # ---- helpers
    def _mangle(self, attr):
        if attr.startswith('__') and not attr.endswith('__') and self.cls:
            return '_' + self.cls[-1].lstrip('_') + attr
        return attr

    def _call(self, fn, *args):
        return ast.Call(func=ast.Name(id=fn, ctx=ast.Load()), args=list(args), keywords=[])

    def _stmt(self, fn, *args):
        return ast.Expr(value=self._call(fn, *args))

    def _is_local(self, name):
        for sc in reversed(self.scopes):
            if name in sc.globals:
                return False
            if name in sc.locals:
                return True
        return False

    # ---- scopes
    def visit_ClassDef(self, node):
        self.cls.append(node.name)
        self.generic_visit(node)
        self.cls.pop()
        return node

    def _visit_fn(self, node):
        self.scopes.append(_Scope(node))
        self.generic_visit(node)
        self.scopes.pop()
        return node

    visit_FunctionDef = _visit_fn
    visit_AsyncFunctionDef = _visit_fn

    def visit_Lambda(self, node):
        sc = _Scope(None)
        a = node.args
        for x in a.posonlyargs + a.args + a.kwonlyargs + [a.vararg, a.kwarg]:
            if x is not None:
                sc.locals.add(x.arg)
        self.scopes.append(sc)
        self.generic_visit(node)
        self.scopes.pop()
        return node

    # ---- loads
    def visit_Attribute(self, node):
        self.generic_visit(node)
        if isinstance(node.ctx, ast.Load):
            STATS['loads'] += 1
            return ast.copy_location(self._call('_vrec_get', node.value, ast.Constant(self._mangle(node.attr))), node)
        return node

    def visit_Name(self, node):
        if isinstance(node.ctx, ast.Load) and node.id in self.G and not self._is_local(node.id):
            STATS['global_loads'] += 1
            return ast.copy_location(self._call('_vrec_getg', ast.Constant(self.modname), ast.Constant(node.id)), node)
        return node

    # ---- stores
    def _targets(self, t, out):
        if isinstance(t, (ast.Tuple, ast.List)):
            for e in t.elts:
                self._targets(e, out)
        elif isinstance(t, ast.Starred):
            self._targets(t.value, out)
        elif isinstance(t, (ast.Attribute, ast.Name)):
            out.append(t)
        return out

    def _wrap_store(self, node, raw_targets, also_read=False):
        """raw_targets: the UNtransformed target expressions of the statement"""
        pre, post = [], []
        for t in raw_targets:
            if isinstance(t, ast.Attribute):
                if not _simple(t.value):
                    STATS['skipped'].append('%s:%d attribute store on a non-simple expression' % (self.modname, getattr(node, 'lineno', 0)))
                    continue
                import copy
                obj = copy.deepcopy(t.value)
                for n in ast.walk(obj):
                    if hasattr(n, 'ctx'):
                        n.ctx = ast.Load()
                name = ast.Constant(self._mangle(t.attr))
                STATS['stores'] += 1
                if also_read:
                    pre.append(self._stmt('_vrec_get', copy.deepcopy(obj), name))
                pre.append(self._stmt('_vrec_pre', copy.deepcopy(obj), name))
                post.append(self._stmt('_vrec_post', copy.deepcopy(obj), name))
            elif isinstance(t, ast.Name) and t.id in self.G and not self._is_local(t.id) and self.scopes:
                STATS['global_stores'] += 1
                pre.append(self._stmt('_vrec_preg', ast.Constant(self.modname), ast.Constant(t.id)))
                post.append(self._stmt('_vrec_postg', ast.Constant(self.modname), ast.Constant(t.id)))
        if not pre:
            return node
        out = pre + [node] + post
        for s in out:
            ast.copy_location(s, node)
        return out

    def visit_Assign(self, node):
        import copy
        raw = []
        for t in node.targets:
            self._targets(copy.deepcopy(t), raw)
        self.generic_visit(node)
        return self._wrap_store(node, raw)

    def visit_AugAssign(self, node):
        import copy
        raw = self._targets(copy.deepcopy(node.target), [])
        self.generic_visit(node)
        return self._wrap_store(node, raw, also_read=True)

    def visit_AnnAssign(self, node):
        import copy
        raw = self._targets(copy.deepcopy(node.target), []) if node.value is not None else []
        self.generic_visit(node)
        return self._wrap_store(node, raw)

    def visit_Delete(self, node):
        import copy
        raw = []
        for t in node.targets:
            self._targets(copy.deepcopy(t), raw)
        self.generic_visit(node)
        return self._wrap_store(node, raw)

    def visit_For(self, node):
        if any(isinstance(t, ast.Attribute) for t in self._targets(node.target, [])):
            STATS['skipped'].append('%s:%d for-loop target is an attribute' % (self.modname, node.lineno))
        self.generic_visit(node)
        return node

    def visit_Call(self, node):
        self.generic_visit(node)
        if isinstance(node.func, ast.Name) and node.func.id in ('setattr', 'delattr') and not node.keywords and not self._is_local(node.func.id):
            STATS['stores'] += 1
            node.func = ast.copy_location(ast.Name(id='_vrec_' + node.func.id, ctx=ast.Load()), node.func)
        return node


# ------------------------------------------------------------------------------------------------ runtime

def _holder(obj, name):
    if isinstance(obj, types.ModuleType):
        return obj if _pkg(obj.__name__) else None
    if isinstance(obj, type):
        for k in obj.__mro__:
            if name in vars(k):
                return k if _pkg(k.__module__) else None
        for k in type(obj).__mro__:
            if name in vars(k):
                return k if _pkg(k.__module__) else None
        return None
    try:
        d = object.__getattribute__(obj, '__dict__')
    except Exception:
        d = None
    if d is not None and name in d:
        return None
    for k in type(obj).__mro__:
        if name in vars(k):
            return k if _pkg(k.__module__) else None
    return None


def _hname(h):
    return h.__name__ if isinstance(h, types.ModuleType) else '%s.%s' % (h.__module__, h.__qualname__)


def _ident(v):
    if isinstance(v, (str, int, bool, float, type(None))):
        return v
    return '%s@%x' % (type(v).__name__, id(v))


def install_runtime(S):
    def vrec_get(obj, name):
        if S.mode == 'off' or S.name() is None:
            return getattr(obj, name)
        h = _holder(obj, name)
        if h is None:
            return getattr(obj, name)
        cell = ('attr', _hname(h), name, '*')
        if S.mode == 'replay' and cell in S.quiet:
            return getattr(obj, name)
        try:
            v = getattr(obj, name)
        except AttributeError:
            S.point('R', cell, '<missing>')
            return getattr(obj, name)
        S.point('R', cell, _ident(v))
        return getattr(obj, name)          # re-read after having been scheduled

    def _wcell(obj, name):
        if isinstance(obj, types.ModuleType):
            return ('attr', obj.__name__, name, '*') if _pkg(obj.__name__) else None
        if isinstance(obj, type):
            return ('attr', _hname(obj), name, '*') if _pkg(obj.__module__) else None
        return None

    def vrec_pre(obj, name):
        if S.mode == 'off' or S.name() is None:
            return
        cell = _wcell(obj, name)
        if cell is not None:
            S.point('W', cell, '<writing>')

    def vrec_post(obj, name):
        if S.mode != 'record' or S.name() is None:
            return
        cell = _wcell(obj, name)
        if cell is None:
            return
        ev = S.ev.get(S.name()) or []
        for k in range(len(ev) - 1, max(-1, len(ev) - 200), -1):
            if ev[k][0] == 'W' and ev[k][1] == cell and ev[k][2] == '<writing>':
                try:
                    v = _ident(vars(obj).get(name, '<missing>'))
                except Exception:
                    v = '<unknown>'
                ev[k] = ('W', cell, v)
                break

    def vrec_getg(modname, name):
        mod = sys.modules[modname]
        if S.mode == 'off' or S.name() is None:
            return _gget(mod, name)
        cell = ('attr', modname, name, '*')
        if not (S.mode == 'replay' and cell in S.quiet):
            S.point('R', cell, _ident(vars(mod).get(name, '<missing>')))
        return _gget(mod, name)

    def _gget(mod, name):
        try:
            return vars(mod)[name]
        except KeyError:
            try:
                return getattr(builtins, name)
            except AttributeError:
                raise NameError("name '%s' is not defined" % name) from None

    def vrec_preg(modname, name):
        vrec_pre(sys.modules[modname], name)

    def vrec_postg(modname, name):
        vrec_post(sys.modules[modname], name)

    def vrec_setattr(obj, name, value):
        vrec_pre(obj, name)
        setattr(obj, name, value)
        vrec_post(obj, name)

    def vrec_delattr(obj, name):
        vrec_pre(obj, name)
        delattr(obj, name)
        vrec_post(obj, name)

    builtins._vrec_setattr = vrec_setattr
    builtins._vrec_delattr = vrec_delattr
    builtins._vrec_get = vrec_get
    builtins._vrec_pre = vrec_pre
    builtins._vrec_post = vrec_post
    builtins._vrec_getg = vrec_getg
    builtins._vrec_preg = vrec_preg
    builtins._vrec_postg = vrec_postg


# ------------------------------------------------------------------------------------------------ import hook

class _Loader(importlib.machinery.SourceFileLoader):
    def get_code(self, fullname):
        path = self.get_filename(fullname)
        data = self.get_data(path)
        tree = ast.parse(data, path)
        tree = Instr(fullname, tree).visit(tree)
        ast.fix_missing_locations(tree)
        STATS['modules'].append(fullname)
        return compile(tree, path, 'exec', dont_inherit=True)


class _Finder(importlib.abc.MetaPathFinder):
    def find_spec(self, fullname, path, target=None):
        if not _pkg(fullname):
            return None
        spec = importlib.machinery.PathFinder.find_spec(fullname, path)
        if spec is not None and isinstance(spec.loader, importlib.machinery.SourceFileLoader):
            spec.loader = _Loader(spec.loader.name, spec.loader.path)
        return spec


def install_hook(S):
    """must run before the package is imported"""
    assert not any(_pkg(m) for m in sys.modules), 'package already imported'
    install_runtime(S)
    sys.meta_path.insert(0, _Finder())
