"""Recording call targets for !call / !bind / !eval harnesses (importable as engine.targets.<name>)."""
LOG = []
RET = {}


def _rec(name, args, kwargs):
    LOG.append((name, tuple(args), tuple(sorted(kwargs.items(), key=lambda kv: str(kv[0])))))
    if name in RET:
        return RET[name]
    return (name, len(LOG))


def f(*args, **kwargs):
    return _rec('f', args, kwargs)


def g(*args, **kwargs):
    return _rec('g', args, kwargs)


def h(*args, **kwargs):
    return _rec('h', args, kwargs)


def pos2(a, b):
    return _rec('pos2', (a, b), {})


def pos3(a, b, c):
    return _rec('pos3', (a, b, c), {})


def dflt(a, b=10, c=20):
    return _rec('dflt', (a, b, c), {})


def kwonly(a, *, k=5, m=6):
    return _rec('kwonly', (a,), {'k': k, 'm': m})


def varpos(a, *rest):
    return _rec('varpos', (a,) + tuple(rest), {})


def varkw(a, **kw):
    return _rec('varkw', (a,), kw)


def mixed(a, b=1, *rest, k=2, **kw):
    return _rec('mixed', (a, b) + tuple(rest), dict(kw, k=k))


def ident(x):
    LOG.append(('ident', (x,), ()))
    return x


def boom(*args, **kwargs):
    LOG.append(('boom', tuple(args), ()))
    raise RuntimeError('boom')


SIGNATURE_TARGETS = ['pos2', 'pos3', 'dflt', 'kwonly', 'varpos', 'varkw', 'mixed']


def mk(x=None, **kw):
    """returns a FRESH mutable object per call"""
    LOG.append(('mk', (repr(x),), ()))
    return list(x) if x is not None else []


def sub(**kw):
    """a sub-config factory: runs an independent build while the outer evaluation is in progress"""
    LOG.append(('sub', (), ()))
    from awesomeyaml.config import Config
    inner = Config.build("{r: !call:engine.targets.leaf {x: [1]}, s: !xref r}", raw_yaml=True)
    return {'r': inner['r'], 'same': inner['s'] is inner['r']}


def leaf(x=None):
    LOG.append(('leaf', (), ()))
    return list(x)
