"""Bounded document families rendered to YAML flow text.

A shape is a nested tuple:  ('m', ((key, child), ...)) | ('l', (child, ...)) | ('s', scalar_text)
Node positions are pre-order indices (root = 0).  Tags are given as {position: tag_text}.
"""
import functools
import itertools


def count_nodes(sh):
    if sh[0] == 's':
        return 1
    if sh[0] == 'm':
        return 1 + sum(count_nodes(c) for _, c in sh[1])
    return 1 + sum(count_nodes(c) for c in sh[1])


def render(sh, tags=None, _pos=None, top=True):
    """flow-style YAML text; tags: {preorder position: tag string}"""
    if _pos is None:
        _pos = [0]
    tags = tags or {}
    me = _pos[0]
    _pos[0] += 1
    t = tags.get(me)
    pre = (t + ' ') if t else ''
    if sh[0] == 's':
        return (pre + sh[1]).rstrip() if sh[1] != '' else pre.rstrip()
    if sh[0] == 'm':
        items = []
        for k, c in sh[1]:
            items.append(f'{k}: {render(c, tags, _pos, False)}')
        return pre + '{' + ', '.join(items) + '}'
    items = [render(c, tags, _pos, False) for c in sh[1]]
    return pre + '[' + ', '.join(items) + ']'


def positions(sh, _pos=None, path=(), out=None):
    """list of (position, kind, path) in pre-order"""
    if _pos is None:
        _pos = [0]
        out = []
    me = _pos[0]
    _pos[0] += 1
    out.append((me, sh[0], path))
    if sh[0] == 'm':
        for k, c in sh[1]:
            positions(c, _pos, path + (k,), out)
    elif sh[0] == 'l':
        for i, c in enumerate(sh[1]):
            positions(c, _pos, path + (i,), out)
    return out


def depth(sh):
    if sh[0] == 's':
        return 0
    kids = [c for _, c in sh[1]] if sh[0] == 'm' else list(sh[1])
    return 1 + max([depth(c) for c in kids], default=0)


@functools.lru_cache(maxsize=None)
def _trees(n, d, keys):
    """all non-root subtrees with exactly n nodes and depth <= d (leaf marker 'x')"""
    out = []
    if n == 1:
        out.append(('s', 'x'))
        out.append(('m', ()))
        out.append(('l', ()))
        return tuple(out)
    if d == 0:
        return ()
    # mapping with 1..len(keys) children (keys taken in order: key names are substituted later)
    for nk in range(1, len(keys) + 1):
        for parts in _compositions(n - 1, nk):
            for combo in itertools.product(*[_trees(p, d - 1, keys) for p in parts]):
                out.append(('m', tuple(zip(keys[:nk], combo))))
    for nl in range(1, 3):
        for parts in _compositions(n - 1, nl):
            for combo in itertools.product(*[_trees(p, d - 1, keys) for p in parts]):
                out.append(('l', combo))
    return tuple(out)


def _compositions(total, k):
    if k == 1:
        if total >= 1:
            yield (total,)
        return
    for first in range(1, total - k + 2):
        for rest in _compositions(total - first, k - 1):
            yield (first,) + rest


@functools.lru_cache(maxsize=None)
def shapes(max_nodes, max_depth, keys=('a', 'b')):
    """all mapping documents (root is a non-empty mapping) with <= max_nodes nodes, depth <= max_depth"""
    out = []
    for n in range(2, max_nodes + 1):
        for t in _trees(n, max_depth, keys):
            if t[0] == 'm' and t[1]:
                out.append(t)
    return tuple(out)


SCALARS = ['1', '-7', '2.5', 'txt', "'q s'", '"17"', 'true', 'null', '', '0x1F', '1e3', '~']


def fill_scalars(sh, pool=SCALARS, start=0):
    """replace the leaf markers by distinct scalar literals (cycling through the pool)"""
    ctr = [start]

    def go(s, in_list=False):
        if s[0] == 's':
            v = pool[ctr[0] % len(pool)]
            ctr[0] += 1
            if v == '' and in_list:      # a flow sequence cannot hold an empty entry: take the next literal
                v = pool[ctr[0] % len(pool)]
                ctr[0] += 1
            return ('s', v)
        if s[0] == 'm':
            return ('m', tuple((k, go(c)) for k, c in s[1]))
        return ('l', tuple(go(c, True) for c in s[1]))
    return go(sh)


def rename_keys(sh, mapping):
    if sh[0] == 's':
        return sh
    if sh[0] == 'm':
        return ('m', tuple((mapping.get(k, k), rename_keys(c, mapping)) for k, c in sh[1]))
    return ('l', tuple(rename_keys(c, mapping) for c in sh[1]))


def rename_keys_below(sh, mapping, depth=0, min_depth=1):
    """rename mapping keys only at nesting depth >= min_depth (top-level keys keep colliding)"""
    if sh[0] == 's':
        return sh
    if sh[0] == 'm':
        return ('m', tuple(((mapping.get(k, k) if depth >= min_depth else k), rename_keys_below(c, mapping, depth + 1, min_depth)) for k, c in sh[1]))
    return ('l', tuple(rename_keys_below(c, mapping, depth + 1, min_depth) for c in sh[1]))


def to_jsonable(sh):
    if sh[0] == 's':
        return ['s', sh[1]]
    if sh[0] == 'm':
        return ['m', [[k, to_jsonable(c)] for k, c in sh[1]]]
    return ['l', [to_jsonable(c) for c in sh[1]]]


def from_jsonable(j):
    if j[0] == 's':
        return ('s', j[1])
    if j[0] == 'm':
        return ('m', tuple((k, from_jsonable(c)) for k, c in j[1]))
    return ('l', tuple(from_jsonable(c) for c in j[1]))
