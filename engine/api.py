"""Harness description objects shared by driver, worker and harness modules."""
import json


class Harness:
    """One solver-checked harness.

    impl(split, *symbolic_args) -> bool      the property instance (True = holds)
    params: list of (name, kind, lo, hi)     kind in {'int', 'bool', 'optbool'}; lo/hi only for int
    splits(tier) -> list of JSON-able dicts  case splits run as separate CrossHair analyses
    pre: extra precondition text over the parameter names (optional)
    """

    def __init__(self, name, impl, params, splits, pre=None, doc='', bounds=None, outside=None,
                 stubs=None, witnesses=(), per_path_timeout=None, max_paths_hint=None,
                 symbolic=None, known=None):
        self.name = name
        self.impl = impl
        self.params = params
        self.splits = splits
        self.pre = pre
        self.doc = doc
        self.bounds = bounds or {}
        self.outside = outside or []
        self.stubs = stubs or []
        self.witnesses = tuple(witnesses)
        self.per_path_timeout = per_path_timeout
        self.symbolic = symbolic or [p[0] for p in params]
        self.known = known  # callable(split, args) -> finding id or None (known-finding classifier)

    def pre_text(self):
        conj = []
        for p in self.params:
            if p[1] == 'int':
                conj.append(f'{p[2]} <= {p[0]} <= {p[3]}')
        if self.pre:
            conj.append(f'({self.pre})')
        return ' and '.join(conj) if conj else 'True'

    def sig_text(self):
        ty = {'int': 'int', 'bool': 'bool', 'optbool': 'typing.Optional[bool]'}
        return ', '.join(f'{p[0]}: {ty[p[1]]}' for p in self.params)

    def arg_names(self):
        return [p[0] for p in self.params]

    def stub_source(self, module, split):
        names = ', '.join(self.arg_names())
        pre_text = self.pre_text()
        if isinstance(split, dict) and split.get('_pre'):
            pre_text += ' and (' + split['_pre'] + ')'     # split-specific constraint: pruned by the solver, not by running paths
        return f'''import typing
from {module} import HARNESSES as _H
_impl = _H[{self.name!r}].impl
SPLIT = {json.dumps(split)!r}
import json as _json
SPLIT = _json.loads(SPLIT)


def h({self.sig_text()}) -> bool:
    """
    pre: {pre_text}
    post: _
    """
    return _impl(SPLIT{', ' + names if names else ''})


def twin({self.sig_text()}) -> bool:
    """
    pre: {pre_text}
    post: _
    """
    _impl(SPLIT{', ' + names if names else ''})
    return False
'''
