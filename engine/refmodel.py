"""Reference oracles written from the property statements (C02-C05, C15) - not from the code.

R-trees: annotated documents.  A spec is built by the harness (possibly holding symbolic flag values),
rendered to YAML text for the implementation and annotated into an R-tree for the oracle; both then
see the same symbolic values, so the final comparison is decided by the solver on every path.
"""


class Unspecified(Exception):
    """the property statements do not determine the outcome of this case (excluded from the claim)"""


class RefMergeError(Exception):
    """the statements require the merge to fail with MergeError"""


class R:
    __slots__ = ('kind', 'val', 'kids', 'prio', 'delete', 'xdel', 'own_prio', 'own_delete', 'valueless', 'stage')

    def __init__(self, kind, val=None, kids=None, own_prio=None, own_delete=None, valueless=False):
        self.kind = kind            # 'm' | 'l' | 's'
        self.val = val              # scalar marker for 's'
        self.kids = kids if kids is not None else []   # 'm': list of [key, R]; 'l': list of R
        self.own_prio = own_prio    # explicit priority flag or None
        self.own_delete = own_delete  # explicit delete flag or None
        self.valueless = valueless  # value-less tagged scalar (e.g. `k: !del`)
        self.prio = 0
        self.delete = False
        self.xdel = False
        self.stage = None

    def empty(self):
        if self.kind == 's':
            return self.valueless
        return not self.kids

    def keys(self):
        return [k for k, _ in self.kids] if self.kind == 'm' else list(range(len(self.kids)))

    def get(self, key):
        if self.kind == 'm':
            for k, c in self.kids:
                if type(k) is type(key) and k == key:
                    return c
            return None
        if self.kind == 'l':
            if isinstance(key, int) and not isinstance(key, bool) and 0 <= key < len(self.kids):
                return self.kids[key]
        return None

    def children(self):
        if self.kind == 'm':
            return [(k, c) for k, c in self.kids]
        if self.kind == 'l':
            return list(enumerate(self.kids))
        return []


def annotate(r, inh_prio=None, inh_delete=None, stage=None):
    """resolve inherited flags: a priority on a container applies to everything below it; the delete
    mode is explicit, else inherited, else the type default (lists replace, mappings merge)"""
    r.stage = stage
    if inh_prio is not None:
        p = inh_prio
    elif r.own_prio is not None:
        p = r.own_prio
    else:
        p = None
    r.prio = p if p is not None else 0
    default = (r.kind == 'l')
    if r.own_delete is not None:
        r.delete = r.own_delete
    elif inh_delete is not None:
        r.delete = inh_delete
    else:
        r.delete = default
    r.xdel = (r.own_delete is True)
    if r.own_delete is not None:
        child_del = r.own_delete
    elif default:
        child_del = True
    else:
        child_del = inh_delete
    for _, c in r.children():
        annotate(c, p, child_del, stage)
    return r


def plain(r):
    """evaluated content of an R-tree"""
    if r.kind == 's':
        return r.val
    if r.kind == 'm':
        return {k: plain(c) for k, c in r.kids}
    return [plain(c) for c in r.kids]


def _deepest(n, rel):
    """deepest existing node of n along the relative path rel"""
    cur = n
    for key in rel:
        nxt = cur.get(key) if cur.kind != 's' else None
        if nxt is None:
            return cur
        cur = nxt
    return cur


def _prune(o, n, rel=()):
    """older entries survive a deleting newer node only if protected by a strictly higher priority"""
    kept = []
    for key, c in o.children():
        crel = rel + (key,)
        keep = c.prio > _deepest(n, crel).prio
        if c.kind != 's':
            _prune(c, n, crel)
            keep = keep or bool(c.kids)
        if keep:
            kept.append([key, c])
    if o.kind == 'm':
        o.kids = kept
    else:
        o.kids = [c for _, c in kept]
    return o


def merge(o, n):
    """merge newer n onto older o (both annotated). Returns the resulting R (or None = key removed
    is signalled through the second value of merge_entry)."""
    if o.kind == 's' or n.kind == 's':
        return n if n.prio >= o.prio else o
    # both containers
    if o.kind == 'l' and n.kind == 'm':
        bad = [k for k in n.keys() if not (isinstance(k, int) and not isinstance(k, bool) and -len(o.kids) <= k < len(o.kids))]
        if bad:
            raise RefMergeError(bad)
        if any(k < 0 for k in n.keys()):
            raise Unspecified('negative index addressing')
    if o.kind == 'l' and n.kind == 'l' and n.delete:
        # a deleting list replaces the older list unless outranked; partially protected lists are unspecified
        prios = set(c.prio for c in o.kids) | {o.prio}
        nprios = set(c.prio for c in n.kids) | {n.prio}
        if len(prios) > 1 or len(nprios) > 1:
            raise Unspecified('deleting list over a list with mixed priorities')
        return n if n.prio >= o.prio else o
    if n.delete:
        o = _prune(o, n)
        if not o.kids and n.prio >= o.prio:
            return n
        if o.kind != n.kind:
            raise Unspecified('type change with protected older entries')
    if o.kind == 'm' and n.kind == 'l':
        # `!merge [..]` onto a mapping: positions become integer keys
        n_items = list(enumerate(n.kids))
    else:
        n_items = n.children()
    for key, nv in n_items:
        if o.kind == 'l' and isinstance(key, int) and key >= len(o.kids):
            if key != len(o.kids):
                raise Unspecified('sparse append')
            o.kids.append(nv)
            continue
        ov = o.get(key)
        if ov is None:
            if nv.kind == 's' and nv.valueless and nv.xdel:
                raise Unspecified('value-less !del of a missing key')
            if o.kind == 'm':
                o.kids.append([key, nv])
            else:
                raise Unspecified('list growth through mapping')
            continue
        r = merge(ov, nv)
        remove = False
        if nv.xdel and nv.empty():
            # explicit remove-this-key idiom: `k: !del`, `k: !del {}`, `k: !del []`
            if r is nv:
                remove = True
            elif r.kind != 's' and not r.kids and not (r.prio > nv.prio):
                remove = True
            elif ov.kind == 's' and r is ov:
                remove = False   # protected by priority
        if remove:
            _remove(o, key)
        else:
            _set(o, key, r)
    if n.prio >= o.prio:
        o.prio = n.prio
        o.own_delete = n.own_delete
        o.delete = n.delete if n.own_delete is not None else o.delete
    return o


def _remove(o, key):
    if o.kind == 'm':
        o.kids = [[k, c] for k, c in o.kids if not (type(k) is type(key) and k == key)]
    else:
        del o.kids[key]


def _set(o, key, r):
    if o.kind == 'm':
        for ent in o.kids:
            if type(ent[0]) is type(key) and ent[0] == key:
                ent[1] = r
                return
        o.kids.append([key, r])
    else:
        o.kids[key] = r


def fold(stages):
    """left fold of annotated stage roots (mappings)"""
    acc = stages[0]
    for s in stages[1:]:
        acc = merge(acc, s)
    return acc


# ------------------------------------------------------------------------------------------------
# plain (tag-free) recursive update on Python data, for C02

def update(old, new):
    if isinstance(old, dict) and isinstance(new, dict):
        out = dict(old)
        for k, v in new.items():
            if k in out:
                r = update(out[k], v)
                out[k] = r
            else:
                out[k] = v
        return out
    if isinstance(old, list) and isinstance(new, dict):
        for k in new:
            if not (isinstance(k, int) and not isinstance(k, bool) and -len(old) <= k < len(old)):
                raise RefMergeError(k)
        if any(k < 0 for k in new):
            raise Unspecified('negative index')
        out = list(old)
        for k, v in new.items():
            out[k] = update(out[k], v)
        return out
    return new


# ------------------------------------------------------------------------------------------------
# independent reader: YAML text with merge-control tags -> R-trees (PyYAML compose only, no awesomeyaml)

def r_from_yaml(text):
    import re
    import yaml

    def enc(m):
        return '!mdx:' + m.group(1).encode().hex()
    text = re.sub(r'!metadata\{\{(.*?)\}\}', enc, text)
    loader = yaml.Loader(text)
    docs = []
    try:
        while loader.check_node():
            docs.append(_r_from_node(loader, loader.get_node()))
    finally:
        loader.dispose()
    return docs


_TAGFLAGS = {'!force': {'priority': 1}, '!weak': {'priority': -1}, '!del': {'delete': True}, '!merge': {'delete': False}}


def _r_from_node(loader, node):
    import yaml
    flags = {}
    tag = node.tag
    if tag in _TAGFLAGS:
        flags = _TAGFLAGS[tag]
    elif tag.startswith('!mdx:'):
        flags = eval('{' + bytes.fromhex(tag[5:]).decode() + '}')
    elif tag.startswith('!') and not tag.startswith('!!'):
        raise Unspecified('tag ' + tag)
    kw = dict(own_prio=flags.get('priority'), own_delete=flags.get('delete'))
    if isinstance(node, yaml.MappingNode):
        kids = []
        for kn, vn in node.value:
            key = loader.construct_object(kn, deep=True)
            kids.append([key, _r_from_node(loader, vn)])
        return R('m', kids=kids, **kw)
    if isinstance(node, yaml.SequenceNode):
        return R('l', kids=[_r_from_node(loader, c) for c in node.value], **kw)
    import copy
    notag = copy.copy(node)
    if tag.startswith('!') and not tag.startswith('!!'):
        plain = node.style is None
        notag.tag = loader.resolve(yaml.ScalarNode, node.value, (True, False) if plain else (False, True))
    val = loader.construct_object(notag, deep=True)
    return R('s', val=val, valueless=(node.value == '' and node.style is None), **kw)


# ------------------------------------------------------------------------------------------------
# specs: one description -> (YAML text for the implementation, R-tree for the oracle)
#   ('m', [(key, spec), ...], site) | ('l', [spec, ...], site) | ('s', value, site) | ('vd',) value-less !del
#   site = None | (name, flags) with flags a dict of PRESENT flags (values may be symbolic)

def spec_text(spec, tagger):
    kind = spec[0]
    if kind == 'vd':
        return '!del '
    st = spec[2] if len(spec) > 2 else None
    pre = (tagger(st[0], st[1]) + ' ') if st else ''
    if kind == 's':
        return pre + (spec[3] if len(spec) > 3 else str(spec[1]))
    if kind == 'm':
        return pre + '{' + ', '.join(f'{k}: {spec_text(c, tagger)}' for k, c in spec[1]) + '}'
    if kind == 'l':
        return pre + '[' + ', '.join(spec_text(c, tagger) for c in spec[1]) + ']'
    raise ValueError(kind)


def spec_r(spec):
    kind = spec[0]
    if kind == 'vd':
        return R('s', val=None, valueless=True, own_delete=True)
    st = spec[2] if len(spec) > 2 else None
    fl = st[1] if st else {}
    kw = dict(own_prio=fl.get('priority'), own_delete=fl.get('delete'))
    if kind == 's':
        return R('s', val=spec[1], **kw)
    if kind == 'm':
        return R('m', kids=[[k, spec_r(c)] for k, c in spec[1]], **kw)
    return R('l', kids=[spec_r(c) for c in spec[1]], **kw)


def wrap_spec(spec, keys):
    for k in reversed(keys):
        spec = ('m', [(k, spec)], None)
    return spec
