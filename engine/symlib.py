"""Shared helpers for harnesses: selectors, symbolic flag sites, environment stubs, witnesses.

Everything here runs both under CrossHair's tracer (symbolic arguments) and natively (replay with
concrete arguments).  Natively no stub of the metadata codec is used: flag sites are rendered with
the repository's real `!metadata:<pickle hex>` tags.
"""
import sys
import io
import os
import pickle
import collections
import contextlib

try:
    from crosshair.tracers import NoTracing, is_tracing
    from crosshair.util import NotDeterministic
except Exception:  # pragma: no cover - crosshair always present in the overlay
    NoTracing = None
    NotDeterministic = ()

    def is_tracing():
        return False

import awesomeyaml.yaml as ayy
import awesomeyaml.builder as aybuilder
from awesomeyaml.nodes.node import ConfigNode
from awesomeyaml.nodes.eval import EvalNode


class PickOutOfRange(Exception):
    pass


def pick(x, n):
    """Concretise selector x in range(n) by explicit comparisons (exact decision tree, binary splitting:
    every value of range(n) is reached by exactly one sequence of branch decisions)."""
    lo, hi = 0, n
    while hi - lo > 1:
        mid = (lo + hi) // 2
        if x < mid:
            hi = mid
        else:
            lo = mid
    if x == lo:
        return lo
    raise PickOutOfRange(n)


def pick_in(x, lo, hi):
    for v in range(lo, hi + 1):
        if x == v:
            return v
    raise PickOutOfRange((lo, hi))


def pick_bool(b):
    if b:
        return True
    return False


def pick_opt(b):
    """Optional[bool] -> concrete None/True/False through explicit branches."""
    if b is None:
        return None
    if b:
        return True
    return False


@contextlib.contextmanager
def untraced():
    if NoTracing is not None and is_tracing():
        with NoTracing():
            yield
    else:
        yield


def reraise_internal(exc):
    """CrossHair's NotDeterministic derives from Exception and can be swallowed by the repo's
    rethrow points; surface it again so that it is never mistaken for a repo error."""
    seen = set()
    e = exc
    while e is not None and id(e) not in seen:
        seen.add(id(e))
        if NotDeterministic and isinstance(e, NotDeterministic):
            raise e
        e = e.__cause__ or e.__context__


# ---------------------------------------------------------------------------------------------
# witnesses (vacuity guards) and samples
WIT = collections.Counter()
SAMPLES = []
LAST = {}


def wit(name, n=1):
    with untraced():
        WIT[name] += n


def note(**kw):
    """remember details of the last executed case (used for replay reports / evidence samples)"""
    with untraced():
        LAST.update(kw)


# ---------------------------------------------------------------------------------------------
# symbolic flag sites through the real loader
SITES = {}
_orig_decode = ayy._decode_metadata


def _decode_stub(encoded):
    if encoded and encoded in SITES:
        kw = dict(SITES[encoded])
        md = kw.pop('metadata', None)
        kw['metadata'] = dict(md) if md else {}
        return kw
    return _orig_decode(encoded)


ayy._decode_metadata = _decode_stub
_orig_encode = ayy._encode_metadata


def _encode_stub(metadata):
    """dump side of the codec stub: under the tracer the (possibly symbolic) metadata dict is parked in the
    site table and a token is emitted instead of pickle.dumps(..).hex() (a C boundary that would realise it)"""
    if is_tracing():
        kw = {}
        user = {}
        for k, v in metadata.items():
            if k in ConfigNode.special_metadata_names:
                kw[k] = v
            else:
                user[k] = v
        if user:
            kw['metadata'] = user
        key = '80ff%06x' % len(SITES)      # looks like an encoded pickle ('80' + hex digits), never equals a real one ('8003..'/'8004..')
        SITES[key] = kw
        return key
    return _orig_encode(metadata)


ayy._encode_metadata = _encode_stub


def site(name, flags, metadata=None):
    """Return the YAML tag for a flag site.  `flags` holds only the PRESENT flags
    (priority/delete/allow_new/safe); values may be symbolic under the tracer."""
    if is_tracing():
        kw = dict(flags)
        if metadata:
            kw['metadata'] = metadata
        key = '80ff%06x' % len(SITES)     # unique per rendering: two renderings never share a table entry; same alphabet as the real codec
        SITES[key] = kw
        return '!metadata:' + key
    md = dict(metadata or {})
    md.update(flags)
    return '!metadata:' + pickle.dumps(md).hex()


def flagset(pp=False, p=None, dp=False, d=None, np_=False, n=None, sp=False, s=None):
    kw = {}
    if pp:
        kw['priority'] = p
    if dp:
        kw['delete'] = d
    if np_:
        kw['allow_new'] = n
    if sp:
        kw['safe'] = s
    return kw


# ---------------------------------------------------------------------------------------------
# virtual file system for awesomeyaml.builder (module attributes only; repo source untouched)
VFS = {}


class _FakeOS:
    path = os.path
    sep = os.sep

    @staticmethod
    def getcwd():
        return '/cwd'

    def __getattr__(self, name):
        return getattr(os, name)


def _vfs_open(path, mode='r', *a, **kw):
    p = os.path.normpath(path)
    ent = VFS.get(p)
    if ent is not None:
        text, exists = ent
        if exists:
            return io.StringIO(text)
    raise FileNotFoundError(2, 'No such file or directory', p)


_vfs_installed = [False]


def install_vfs():
    if _vfs_installed[0]:
        return
    import awesomeyaml.nodes.path as aypath
    fake = _FakeOS()
    aybuilder.open = _vfs_open
    aybuilder.os = fake
    aypath.os = fake
    _vfs_installed[0] = True


def vfs_put(path, text, exists=True):
    VFS[os.path.normpath(path)] = (text, exists)


# ---------------------------------------------------------------------------------------------
def reset():
    """start every path from the same process state"""
    SITES.clear()
    VFS.clear()
    LAST.clear()
    with untraced():
        for k in [k for k in sys.modules if k.startswith(EvalNode._top_namespace_module_name)]:
            del sys.modules[k]
    from . import targets
    targets.LOG.clear()
    # thread-local parse defaults: make sure a previous aborted path left nothing behind
    for slot in (ConfigNode._default_filename, ConfigNode._default_safe):
        if hasattr(slot, 'value'):
            try:
                del slot.value
            except AttributeError:
                pass
    import awesomeyaml.errors as ayerr
    if getattr(ayerr._api_entered, 'value', False):
        ayerr._api_entered.value = False


# ---------------------------------------------------------------------------------------------
# known findings (committed file, never written at run time)
_KNOWN_OPEN = None


def known(fid):
    """True iff `fid` is listed as an open known finding and masking is not disabled (VERIF_RAW)."""
    global _KNOWN_OPEN
    if os.environ.get('VERIF_RAW'):
        return False
    if _KNOWN_OPEN is None:
        import json
        p = os.path.join(os.path.dirname(os.path.dirname(os.path.abspath(__file__))), 'known_findings.json')
        try:
            with untraced():
                data = json.load(open(p))
            _KNOWN_OPEN = {f['id'] for f in data.get('findings', []) if f.get('status') == 'open'}
        except OSError:
            _KNOWN_OPEN = set()
    if fid in _KNOWN_OPEN:
        wit('known:' + fid)
        return True
    return False


def same_dump(t1, t2):
    """textual equality of two dumps modulo the names of codec-stub tokens (under the tracer every encoded
    metadata dict gets a fresh token name; natively both texts hold pickle hex and are compared verbatim)"""
    import re
    pat = re.compile(r'(80ff[0-9a-f]{6})')
    p1, p2 = pat.split(t1), pat.split(t2)
    if len(p1) != len(p2):
        return False
    for i, (a, b) in enumerate(zip(p1, p2)):
        if i % 2 == 0:
            if a != b:
                return False
        else:
            if a in SITES and b in SITES:
                if SITES[a] != SITES[b]:
                    return False
            elif a != b:
                return False
    return True
