"""Runs a chunk of (harness, split) analyses under CrossHair in this process.

usage: python -m engine.xh_worker <job.json> <out.jsonl>
Each analysed split appends one JSON line; a 'start' line is written before the analysis so that the
driver can tell which split killed the process if it dies on a signal.
"""
import sys
import os
import re
import ast
import json
import time
import collections
import importlib
import importlib.util
import traceback

sys.setrecursionlimit(20000)

import crosshair.enforce as _enf

# awesomeyaml relies on metaclass __call__; CrossHair's contract *enforcement* would replace every
# class call by manual_constructor.  The repo has no contracts, so enforcement is pointless here.
_enf.EnforcedConditions.wants_codeobj = lambda self, codeobj: codeobj.co_name == '_crosshair_with_enforcement'

import z3
from crosshair.core_and_libs import analyze_function, run_checkables, AnalysisKind, MessageType
from crosshair.options import AnalysisOptionSet
from crosshair.tracers import COMPOSITE_TRACER, TracingModule, NoTracing

SOLVER = {'n': 0, 't': 0.0, 'unknown': 0}
_orig_check = z3.Solver.check


def _timed_check(self, *a, **kw):
    t = time.perf_counter()
    try:
        r = _orig_check(self, *a, **kw)
    finally:
        SOLVER['t'] += time.perf_counter() - t
        SOLVER['n'] += 1
    if str(r) == 'unknown':
        SOLVER['unknown'] += 1
    return r


z3.Solver.check = _timed_check


class FnRecorder(TracingModule):
    """records which repository functions are entered while symbolic tracing is on"""

    def __init__(self):
        self.seen = set()
        self.on = True

    def trace_call(self, frame, fn, binding_target):
        if self.on:
            mod = getattr(fn, '__module__', None)
            if mod and mod.startswith('awesomeyaml'):
                self.seen.add(mod + '.' + getattr(fn, '__qualname__', getattr(fn, '__name__', '?')))
        return None


def parse_call(msg, fname):
    """extract the argument list of the counterexample call from a CrossHair message"""
    m = re.search(r'when calling (%s\(.*\))(?: \(which returns|$| with )' % re.escape(fname), msg, re.S)
    if not m:
        return None
    text = m.group(1)
    # cut at the matching parenthesis
    depth = 0
    for i, ch in enumerate(text):
        if ch == '(':
            depth += 1
        elif ch == ')':
            depth -= 1
            if depth == 0:
                text = text[:i + 1]
                break
    try:
        call = ast.parse(text, mode='eval').body
        args = [ast.literal_eval(a) for a in call.args]
        kwargs = {k.arg: ast.literal_eval(k.value) for k in call.keywords}
        return {'args': args, 'kwargs': kwargs}
    except Exception:
        return None


def analyse(fn, per_path_timeout, per_condition_timeout):
    stats = collections.Counter()
    opts = AnalysisOptionSet(analysis_kind=[AnalysisKind.PEP316],
                             per_condition_timeout=per_condition_timeout,
                             per_path_timeout=per_path_timeout,
                             max_uninteresting_iterations=10 ** 9,
                             max_iterations=10 ** 9,
                             report_all=True, stats=stats)
    msgs = run_checkables(analyze_function(fn, opts))
    return msgs, stats


def classify(msgs):
    states = [m.state for m in msgs]
    if any(s in (MessageType.POST_FAIL, MessageType.EXEC_ERR, MessageType.POST_ERR) for s in states):
        return 'REFUTED'
    if any(s in (MessageType.SYNTAX_ERR, MessageType.IMPORT_ERR, MessageType.PRE_UNSAT) for s in states):
        return 'ERROR'
    if states and all(s == MessageType.CONFIRMED for s in states):
        return 'CONFIRMED'
    return 'UNKNOWN'


def main():
    job = json.load(open(sys.argv[1]))
    out = open(sys.argv[2], 'a')
    sys.path.insert(0, job['verif_root'])
    hmod = importlib.import_module(job['module'])
    H = hmod.HARNESSES[job['harness']]
    from engine import symlib
    rec = FnRecorder()
    if job.get('record_functions', True):
        COMPOSITE_TRACER.push_module(rec)
    ppt = job['per_path_timeout']
    pct = job['per_split_timeout']
    for k, split in job['splits']:
        out.write(json.dumps({'ev': 'start', 'k': k, 'split': split}) + '\n')
        out.flush()
        path = os.path.join(job['workdir'], f"stub_{job['harness']}_{k}.py")
        with open(path, 'w') as f:
            f.write(H.stub_source(job['module'], split))
        spec = importlib.util.spec_from_file_location(f"stub_{job['harness']}_{k}", path)
        stub = importlib.util.module_from_spec(spec)
        sys.modules[spec.name] = stub
        spec.loader.exec_module(stub)
        symlib.WIT.clear()
        s0 = dict(SOLVER)
        t0 = time.perf_counter()
        res = {'ev': 'done', 'k': k, 'split': split}
        try:
            msgs, stats = analyse(stub.h, ppt, pct)
            verdict = classify(msgs)
            res.update(verdict=verdict, paths=stats.get('num_paths', 0),
                       messages=[(m.state.name, m.message[:2000]) for m in msgs])
            if verdict == 'REFUTED':
                for m in msgs:
                    if m.state in (MessageType.POST_FAIL, MessageType.EXEC_ERR, MessageType.POST_ERR):
                        res['cex'] = parse_call(m.message, 'h')
                        res['cex_kind'] = m.state.name
                        break
        except BaseException as e:  # noqa
            res.update(verdict='ERROR', paths=0, messages=[('WORKER_EXC', traceback.format_exc()[-3000:])])
        res['wall'] = time.perf_counter() - t0
        res['solver_n'] = SOLVER['n'] - s0['n']
        res['solver_t'] = SOLVER['t'] - s0['t']
        res['solver_unknown'] = SOLVER['unknown'] - s0['unknown']
        res['wit'] = dict(symlib.WIT)
        # reachability twin: must be refuted by reaching the final `return False`
        if job.get('twin', True) and res['verdict'] in ('CONFIRMED',):
            rec.on = False
            try:
                tm, ts = analyse(stub.twin, ppt, min(pct, 60))
                res['twin'] = any(m.state == MessageType.POST_FAIL for m in tm)
                res['twin_paths'] = ts.get('num_paths', 0)
                if not res['twin']:
                    res['twin_msgs'] = [(m.state.name, m.message[:500]) for m in tm]
            except BaseException:  # noqa
                res['twin'] = False
                res['twin_msgs'] = [('WORKER_EXC', traceback.format_exc()[-1000:])]
            rec.on = True
        res['functions'] = sorted(rec.seen)
        rec.seen.clear()
        out.write(json.dumps(res, default=str) + '\n')
        out.flush()
        try:
            os.unlink(path)
        except OSError:
            pass
    out.close()


if __name__ == '__main__':
    main()
