"""Driver: ./check <Cxx> [--tier quick|thorough]  |  ./check --replay <file>

Splits every harness of the property into case splits, runs them on a pool of CrossHair worker
processes, replays every counterexample natively before reporting it, handles known findings and
writes /verif/evidence/<id>.json.

exit codes: 0 property held on everything explored; 1 VIOLATION (replayed); 2 inconclusive (some split
UNKNOWN / timed out / vacuous - never reported as success); 3 machinery error (a counterexample that
does not reproduce natively, a worker that broke, an unsatisfiable precondition).
"""
import sys
import os
import json
import time
import math
import shutil
import signal
import hashlib
import tempfile
import importlib
import subprocess
import collections

ROOT = os.path.dirname(os.path.dirname(os.path.abspath(__file__)))
sys.path.insert(0, ROOT)
PY = os.path.join(ROOT, '.venv', 'bin', 'python')
NCPU = int(os.environ.get('VERIF_JOBS', os.cpu_count() or 4))
REPO_PREFIX = (os.environ['VERIF_REPO'] + os.pathsep) if os.environ.get('VERIF_REPO') else ''


def log(*a):
    print(*a, flush=True)


def load_known():
    p = os.path.join(ROOT, 'known_findings.json')
    if not os.path.exists(p):
        return []
    return json.load(open(p)).get('findings', [])


def native(module, harness, split, args, timeout=60, raw=False):
    env = dict(os.environ)
    env['PYTHONPATH'] = REPO_PREFIX + ROOT
    if raw:
        env['VERIF_RAW'] = '1'
    try:
        p = subprocess.run([PY, '-m', 'engine.replay', module, harness, json.dumps(split), json.dumps(args)],
                           cwd=ROOT, env=env, capture_output=True, text=True, timeout=timeout)
    except subprocess.TimeoutExpired:
        return {'ok': None, 'hang': True, 'exc': f'native replay did not finish within {timeout}s', 'detail': {}}
    for line in p.stdout.splitlines():
        if line.startswith('REPLAY-RESULT '):
            r = json.loads(line[len('REPLAY-RESULT '):])
            r['returncode'] = p.returncode
            return r
    return {'ok': None, 'crash': True, 'returncode': p.returncode, 'exc': (p.stderr or '')[-2000:], 'detail': {}}


def run_workers(jobs, workdir, wall_budget):
    """jobs: list of job dicts. returns list of (job, returncode, lines)"""
    pending = list(enumerate(jobs))
    running = {}
    results = []
    t0 = time.time()
    while pending or running:
        while pending and len(running) < NCPU:
            i, job = pending.pop(0)
            jf = os.path.join(workdir, f'job_{i}.json')
            of = os.path.join(workdir, f'out_{i}.jsonl')
            json.dump(job, open(jf, 'w'))
            env = dict(os.environ)
            env['PYTHONPATH'] = REPO_PREFIX + ROOT
            env['PYTHONHASHSEED'] = '0'
            ef = open(os.path.join(workdir, f'err_{i}.txt'), 'w')
            p = subprocess.Popen([PY, '-m', 'engine.xh_worker', jf, of], cwd=ROOT, env=env,
                                 stdout=ef, stderr=ef)
            running[i] = (p, job, of, ef, time.time())
        time.sleep(0.05)
        for i in list(running):
            p, job, of, ef, ts = running[i]
            rc = p.poll()
            timed_out = False
            if rc is None and time.time() - t0 > wall_budget:
                p.kill()
                p.wait()
                rc = p.returncode
                timed_out = True
            if rc is not None:
                ef.close()
                lines = []
                if os.path.exists(of):
                    for line in open(of):
                        try:
                            lines.append(json.loads(line))
                        except ValueError:
                            pass
                err = open(ef.name).read()[-3000:]
                results.append((job, rc, lines, err, timed_out))
                del running[i]
    return results


def _sample_args(H, split, seed):
    """a concrete argument vector inside the bounds that satisfies the (split-specific) precondition, or None"""
    import itertools
    import random
    rnd = random.Random(seed * 7919 + len(json.dumps(split, default=repr)))
    names = H.arg_names()
    pre = H.pre_text() + ((' and (' + split['_pre'] + ')') if isinstance(split, dict) and split.get('_pre') else '')

    def candidates():
        yield [(p[2] if p[1] == 'int' else (False if p[1] == 'bool' else None)) for p in H.params]
        yield [(p[3] if p[1] == 'int' else (True if p[1] == 'bool' else True)) for p in H.params]
        for _ in range(200):
            yield [(rnd.randint(p[2], p[3]) if p[1] == 'int' else (rnd.random() < 0.5 if p[1] == 'bool' else rnd.choice([None, True, False]))) for p in H.params]
    for cand in candidates():
        try:
            if eval(pre, {}, dict(zip(names, cand))):
                return cand
        except Exception:
            return None
    return None


def chunk(seq, n):
    return [seq[i:i + n] for i in range(0, len(seq), n)]


def check_property(pid, tier, seed):
    t_start = time.time()
    module = f'harness.{pid}'
    hmod = importlib.import_module(module)
    meta = hmod.PROPERTY
    known_all = [k for k in load_known() if k.get('property') == pid]
    known_open = [k for k in known_all if k.get('status') == 'open']
    workdir = tempfile.mkdtemp(prefix=f'verif_{pid}_', dir=os.environ.get('VERIF_WORK', '/var/tmp'))
    violations = []
    inconclusive = []
    machinery = []
    known_lines = []
    ev = {'harnesses': {}, 'samples': []}
    try:
        # 0. optional preparation (oracle validation against the repo's own fixtures etc.)
        prep = {}
        if hasattr(hmod, 'prepare'):
            prep = hmod.prepare(tier) or {}
            for v in prep.get('violations', []):
                violations.append(v)
            for m in prep.get('machinery', []):
                machinery.append(m)
        # 1. known findings: execute each witness natively, unmasked
        for kf in known_open:
            w = kf['witness']
            r = native(module, w['harness'], w['split'], w['args'], timeout=w.get('timeout', 60), raw=True)
            still = (r.get('ok') is False) or r.get('hang') or (r.get('crash') and kf.get('crash_expected'))
            kf['_reproduces'] = bool(still)
            if still:
                line = f"KNOWN-FINDING: property={pid} {kf['id']}: {kf['what']}"
                known_lines.append(line)
                log(line)
        # 2. build jobs
        jobs = []
        total_splits = 0
        per_h = {}
        only = os.environ.get('VERIF_ONLY')          # debugging aid: restrict a run to one harness of the property (not used by registered commands)
        for name, H in hmod.HARNESSES.items():
            splits = H.splits(tier) if (not only or only == name) else []
            per_h[name] = {'splits': len(splits), 'confirmed': 0, 'paths': 0, 'refuted': 0, 'unknown': 0,
                           'solver_n': 0, 'solver_t': 0.0, 'wall_cpu': 0.0, 'wit': collections.Counter(),
                           'twin_ok': 0, 'twin_paths': 0, 'functions': set(), 'doc': H.doc, 'bounds': H.bounds,
                           'outside': H.outside, 'stubs': H.stubs, 'symbolic': H.symbolic,
                           'params': [list(p) for p in H.params], 'pre': H.pre_text()}
            total_splits += len(splits)
            indexed = list(enumerate(splits))
            csize = max(1, min(int(meta.get('chunk', 40)), len(indexed) // (NCPU * 4)))
            for ch in chunk(indexed, csize):
                jobs.append({'verif_root': ROOT, 'module': module, 'harness': name, 'splits': ch, 'workdir': workdir,
                             'per_path_timeout': H.per_path_timeout or meta.get('per_path_timeout', 30),
                             'per_split_timeout': meta.get('per_split_timeout', {}).get(tier, 600),
                             'twin': True})
        wall_budget = meta.get('wall_budget', {}).get(tier, 3000)
        results = run_workers(jobs, workdir, wall_budget)
        # 3. collect
        refuted = []
        for job, rc, lines, err, timed_out in results:
            name = job['harness']
            st = per_h[name]
            done = {l['k']: l for l in lines if l.get('ev') == 'done'}
            started = [l for l in lines if l.get('ev') == 'start']
            for k, split in job['splits']:
                r = done.get(k)
                if r is None:
                    was_started = any(s['k'] == k for s in started)
                    if was_started and rc is not None and rc < 0 and not timed_out:
                        # the worker died on a signal while analysing this split
                        machinery_or_crash = {'harness': name, 'split': split, 'signal': -rc, 'stderr': err[-500:]}
                        if hasattr(hmod, 'on_worker_crash'):
                            v = hmod.on_worker_crash(name, split, -rc)
                            if v:
                                violations.append(v)
                                continue
                        machinery.append(('worker died', machinery_or_crash))
                    elif timed_out:
                        inconclusive.append({'harness': name, 'split': split, 'why': 'wall budget exhausted'})
                        st['unknown'] += 1
                    else:
                        machinery.append(('no result', {'harness': name, 'split': split, 'rc': rc, 'stderr': err[-800:]}))
                    continue
                st['paths'] += r.get('paths', 0)
                st['solver_n'] += r.get('solver_n', 0)
                st['solver_t'] += r.get('solver_t', 0.0)
                st['wall_cpu'] += r.get('wall', 0.0)
                st.setdefault('slowest', []).append((round(r.get('wall', 0.0), 1), r.get('paths', 0), split))
                st['wit'].update(r.get('wit', {}))
                st['functions'].update(r.get('functions', []))
                v = r['verdict']
                if v == 'CONFIRMED':
                    if r.get('twin'):
                        st['confirmed'] += 1
                        st['twin_ok'] += 1
                        st['twin_paths'] += r.get('twin_paths', 0)
                    else:
                        machinery.append(('vacuous: reachability twin not refuted', {'harness': name, 'split': split, 'msgs': r.get('twin_msgs')}))
                elif v == 'REFUTED':
                    st['refuted'] += 1
                    refuted.append((name, split, r))
                elif v == 'UNKNOWN':
                    st['unknown'] += 1
                    inconclusive.append({'harness': name, 'split': split, 'why': r.get('messages'), 'paths': r.get('paths')})
                else:
                    machinery.append(('worker error', {'harness': name, 'split': split, 'msgs': r.get('messages')}))
        for st in per_h.values():
            st['slowest'] = sorted(st.get('slowest', []), key=lambda x: -x[0])[:3]
        # 4. replay counterexamples natively before reporting
        os.makedirs(os.path.join(ROOT, 'replays'), exist_ok=True)
        replayed = 0
        seen_sig = set()
        for name, split, r in refuted:
            cex = r.get('cex')
            if not cex:
                machinery.append(('counterexample not parsable', {'harness': name, 'split': split, 'msgs': r.get('messages')}))
                continue
            H = hmod.HARNESSES[name]
            args = list(cex['args']) + [cex['kwargs'][n] for n in H.arg_names()[len(cex['args']):]]
            nr = native(module, name, split, args, timeout=meta.get('replay_timeout', 60))
            replayed += 1
            # only a harness that RETURNS False natively is a violation; an exception escaping the harness itself (e.g. an
            # internal name it relies on was renamed) is a machinery error, never a VIOLATION
            fails = (nr.get('ok') is False)
            if nr.get('hang') and meta.get('hang_is_violation'):
                fails = True
            if nr.get('crash') and meta.get('crash_is_violation'):
                fails = True
            if fails:
                body = {'property': pid, 'module': module, 'harness': name, 'split': split, 'args': args,
                        'crosshair': r.get('messages'), 'native': nr}
                h = hashlib.sha1(json.dumps([name, split, args], sort_keys=True).encode()).hexdigest()[:12]
                rp = os.path.join(ROOT, 'replays', f'{pid}_{name}_{h}.json')
                json.dump(body, open(rp, 'w'), indent=1, default=repr)
                violations.append({'replay': rp, 'harness': name, 'split': split, 'args': args, 'detail': nr.get('detail')})
            else:
                machinery.append(('counterexample does not reproduce natively', {'harness': name, 'split': split, 'args': args, 'native': nr, 'msgs': r.get('messages')}))
        # 4b. native validation of sample inputs: concrete argument vectors that satisfy the precondition are executed WITHOUT
        #     the tracer (real codec, real Config/Builder); they must agree with the symbolic verdict, and they are the
        #     evidence samples (documents, expected and observed values as the harness noted them)
        native_samples = []
        validated = 0
        if not refuted and not machinery:
            for name, H in hmod.HARNESSES.items():
                splits = H.splits(tier)
                picks = [splits[i] for i in sorted(set([0, len(splits) // 2, len(splits) - 1]))] if splits else []
                for split in picks:
                    args = _sample_args(H, split, seed)
                    if args is None:
                        continue
                    nr = native(module, name, split, args, timeout=meta.get('replay_timeout', 60))
                    if nr.get('ok') is True:
                        validated += 1
                        if len(native_samples) < 6:
                            native_samples.append({'harness': name, 'split': split, 'args': args, 'native_detail': nr.get('detail')})
                    elif nr.get('ok') is False:
                        body = {'property': pid, 'module': module, 'harness': name, 'split': split, 'args': args, 'crosshair': 'sample validation', 'native': nr}
                        h = hashlib.sha1(json.dumps([name, split, args], sort_keys=True, default=repr).encode()).hexdigest()[:12]
                        rp = os.path.join(ROOT, 'replays', f'{pid}_{name}_{h}.json')
                        json.dump(body, open(rp, 'w'), indent=1, default=repr)
                        violations.append({'replay': rp, 'harness': name, 'split': split, 'args': args, 'detail': nr.get('detail'), 'note': 'native run of a sample input fails although the symbolic analysis confirmed the split'})
                    else:
                        machinery.append(('sample input could not be executed natively', {'harness': name, 'split': split, 'args': args, 'native': nr}))
        # 5. vacuity: declared witnesses must have fired
        for name, H in hmod.HARNESSES.items():
            st = per_h[name]
            for w in H.witnesses:
                if st['splits'] and st['wit'].get(w, 0) == 0 and st['confirmed'] == st['splits']:
                    machinery.append(('vacuous: witness never fired', {'harness': name, 'witness': w}))
        # 6. evidence
        wall = time.time() - t_start
        tot_paths = sum(s['paths'] for s in per_h.values())
        tot_solver = sum(s['solver_n'] for s in per_h.values())
        obligations = sum(s['splits'] for s in per_h.values())
        discharged = sum(s['confirmed'] for s in per_h.values())
        samples = []
        if hasattr(hmod, 'samples'):
            try:
                samples = hmod.samples(tier)
            except Exception as e:  # noqa
                samples = [f'sample rendering failed: {e!r}']
        samples = list(samples) + native_samples
        if not samples:
            samples = [{'harness': n, 'first_split': (hmod.HARNESSES[n].splits(tier) or [None])[0]} for n in per_h]
        functions = sorted(set().union(*[s['functions'] for s in per_h.values()])) if per_h else []
        evidence = {
            'property_id': pid, 'tier': tier, 'seed': seed, 'level': 'model_checking',
            'coverage': {
                'states': max(tot_paths, 0), 'transitions': max(tot_solver, 0),
                'traces_validated_against_impl': replayed + validated + int(prep.get('validated', 0)) + len(known_open),
                'samples': samples,
                'obligations': obligations, 'discharged': discharged,
                'exhaustive': bool(obligations and discharged == obligations and not inconclusive and not machinery),
                'explanation': 'states = execution paths explored by CrossHair (each path condition decided by z3); '
                               'transitions = z3 check() calls; obligations = (harness, case split) analyses, discharged = '
                               'those ending "Confirmed over all paths" with a refuted reachability twin; '
                               'traces_validated_against_impl = native replays + fixture/translator validations + known-finding witnesses.',
                'technique': meta.get('technique'),
                'functions_encoded': functions,
                'harnesses': {n: {k: (dict(v) if isinstance(v, collections.Counter) else (sorted(v) if isinstance(v, set) else v))
                                  for k, v in s.items() if k != 'functions'} for n, s in per_h.items()},
                'solver_queries': tot_solver,
                'solver_time_s': round(sum(s['solver_t'] for s in per_h.values()), 3),
                'cpu_time_s': round(sum(s['wall_cpu'] for s in per_h.values()), 1),
                'inconclusive': inconclusive[:20], 'inconclusive_count': len(inconclusive),
                'machinery_errors': [repr(m)[:600] for m in machinery[:10]],
                'known_findings': known_lines,
                'prepare': {k: v for k, v in prep.items() if k not in ('violations', 'machinery')},
                'bounds': meta.get('bounds'), 'outside_claim': meta.get('outside'),
            },
            'assumptions': meta.get('assumptions', []),
            'wall_s': round(wall, 2),
            'violations': len(violations),
        }
        evdir = os.environ.get('VERIF_EVIDENCE_DIR') or os.path.join(ROOT, 'evidence')      # override only for sizing runs on scratch checkouts
        os.makedirs(evdir, exist_ok=True)
        json.dump(evidence, open(os.path.join(evdir, f'{pid}.json'), 'w'), indent=1, default=repr)
        # 7. report
        log(f'[{pid}] tier={tier} obligations={obligations} discharged={discharged} paths={tot_paths} '
            f'solver_queries={tot_solver} solver_time={evidence["coverage"]["solver_time_s"]}s wall={wall:.1f}s')
        for n, s in per_h.items():
            log(f'   {n}: slowest splits (cpu s, paths, split): {s.get("slowest")}')
            log(f'   {n}: splits={s["splits"]} confirmed={s["confirmed"]} refuted={s["refuted"]} unknown={s["unknown"]} paths={s["paths"]} wit={dict(s["wit"])}')
        if violations:
            seen = set()
            for v in violations:
                rp = v.get('replay')
                if rp in seen:
                    continue
                seen.add(rp)
                log(f'VIOLATION property={pid} replay={rp}')
                log('   ' + json.dumps({k: v[k] for k in v if k != 'replay'}, default=repr)[:1500])
            return 1
        if machinery:
            for m in machinery[:4]:
                log("MACHINERY-ERROR", repr(m)[:1200])
            return 3
        if inconclusive:
            for m in inconclusive[:10]:
                log('INCONCLUSIVE', repr(m)[:800])
            return 2
        return 0
    finally:
        shutil.rmtree(workdir, ignore_errors=True)


def replay_file(path):
    body = json.load(open(path))
    if body.get('engine') == 'sched-smt':
        from harness import C20
        return C20.replay_file(body)
    r = native(body['module'], body['harness'], body['split'], body['args'], timeout=120)
    log(json.dumps(r, indent=1, default=repr))
    fails = (r.get('ok') is False) or r.get('hang') or r.get('crash') or (r.get('ok') is None and r.get('exc'))
    if fails:
        log(f"VIOLATION property={body['property']} replay={path}")
        return 1
    log('replay: property holds on this input now')
    return 0


def main(argv):
    if argv and argv[0] == '--replay':
        return replay_file(argv[1])
    pid = argv[0]
    tier = os.environ.get('VERIF_TIER', 'quick')
    if '--tier' in argv:
        tier = argv[argv.index('--tier') + 1]
    seed = int(os.environ.get('VERIF_SEED', '0') or 0)
    if pid == 'C20':
        from harness import C20
        return C20.main(tier, seed)
    return check_property(pid, tier, seed)


if __name__ == '__main__':
    sys.exit(main(sys.argv[1:]))
