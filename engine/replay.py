"""Native (untraced) execution of one harness case: python -m engine.replay <module> <harness> <split> <args>

Prints one JSON object: {"ok": bool|null, "exc": str|null, "detail": {...}}.  No CrossHair tracer, no
metadata stub (flag sites are rendered as real `!metadata:<pickle hex>` tags by symlib.site).
"""
import sys
import json
import traceback

sys.setrecursionlimit(20000)


def run(module, harness, split, args):
    import importlib
    hmod = importlib.import_module(module)
    H = hmod.HARNESSES[harness]
    from engine import symlib
    out = {'ok': None, 'exc': None, 'detail': {}}
    try:
        out['ok'] = bool(H.impl(split, *args))
    except Exception:
        out['exc'] = traceback.format_exc()[-3000:]
    out['detail'] = {k: (v if isinstance(v, (int, float, bool, str, type(None), list, dict)) else repr(v))
                     for k, v in symlib.LAST.items()}
    out['known'] = None
    if H.known is not None and out['ok'] is False:
        try:
            out['known'] = H.known(split, args, dict(symlib.LAST))
        except Exception:
            out['known'] = None
    return out


if __name__ == '__main__':
    module, harness, split, args = sys.argv[1], sys.argv[2], json.loads(sys.argv[3]), json.loads(sys.argv[4])
    sys.path.insert(0, '/verif')
    res = run(module, harness, split, args)
    print('REPLAY-RESULT ' + json.dumps(res, default=repr))
