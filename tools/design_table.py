"""print the quick/thorough number columns of DESIGN.md section 5 from evidence files (quick: /verif/evidence, thorough: a directory given as argv[1])"""
import json, sys, os
tdir = sys.argv[1] if len(sys.argv) > 1 else None
for i in range(1, 21):
    pid = 'C%02d' % i
    row = [pid]
    for d in ('/verif/evidence', tdir):
        if not d or not os.path.exists(os.path.join(d, pid + '.json')):
            row.append('-')
            continue
        e = json.load(open(os.path.join(d, pid + '.json')))
        c = e['coverage']
        if pid == 'C20':
            row.append('%d scenarios · %d events · %d queries · %.0f s' % (c['obligations'], c['states'], c['solver_queries'], e['wall_s']))
        else:
            row.append('%d · %s paths · %s queries · %.0f s' % (c.get('obligations', 0), c.get('states'), c.get('solver_queries'), e['wall_s']))
    print('| ' + ' | '.join(row) + ' |')
