"""Regenerate MANIFEST.json from the harness modules present (keeps the file valid at all times)."""
import json, os, sys, importlib
ROOT = os.path.dirname(os.path.dirname(os.path.abspath(__file__)))
sys.path.insert(0, ROOT)
props = [json.loads(l) for l in open(os.path.join(ROOT, 'properties.jsonl'))]
NA = json.load(open(os.path.join(ROOT, 'tools', 'not_applicable.json')))
checks, na = [], []
for p in props:
    pid = p['id']
    path = os.path.join(ROOT, 'harness', pid + '.py')
    if pid in NA or not os.path.exists(path):
        na.append({'property_id': pid, 'reason': NA.get(pid, 'harness not built yet in this round (planned in DESIGN.md section 5)')})
        continue
    src = open(path).read()
    meta = {}
    # PROPERTY dict is a literal in every harness module
    import ast
    for node in ast.parse(src).body:
        if isinstance(node, ast.Assign) and getattr(node.targets[0], 'id', None) == 'PROPERTY':
            meta = ast.literal_eval(node.value)
    checks.append({
        'property_id': pid,
        'quick_cmd': f'./check {pid} --tier quick',
        'thorough_cmd': f'./check {pid} --tier thorough',
        'evidence_file': f'/verif/evidence/{pid}.json',
        'replay_cmd_template': './check --replay {path}',
        'engine': meta.get('engine', 'crosshair-z3'),
        'level_claimed': {
            'category': 'model_checking',
            'text': meta.get('level_text', 'Bounded symbolic execution of the real code (CrossHair + z3): every harness case split must end '
                    '"Confirmed over all paths" - z3 decides each path condition and the property assertion for all values of the '
                    'symbolic parameters within the stated bounds; counterexamples are replayed natively before being reported.'),
            'design_ref': f'DESIGN.md section 5, {pid}',
        },
        'level_note': '; '.join(meta.get('assumptions', [])) or 'see DESIGN.md 3.11',
        'technique': meta.get('technique', 'CrossHair/z3 bounded symbolic execution of the real code'),
    })
man = {
    'version': 1,
    'setup_cmd': './bootstrap.sh',
    'hooks': {'guard': 'AWESOMEYAML_VERIF', 'enable': 'no source hooks in /repo: all instrumentation is installed from the harness process (module attributes; for C20 an import hook that compiles the package from its current source through an AST transformer)', 'baseline_off_cmd': '/venv/bin/python /verif/tools/baseline.py /repo', 'source_commits': [], 'add_only': True},
    'engines': [
        {'name': 'crosshair-z3', 'path': 'engine/xh_driver.py', 'serves_properties': [c['property_id'] for c in checks if c['engine'] == 'crosshair-z3'], 'kind_free_text': 'CrossHair 0.0.110 symbolic execution of the repository modules, z3 5.1 deciding each path; 16 worker processes'},
        {'name': 'sched-smt', 'path': 'engine/sched_smt.py', 'serves_properties': [c['property_id'] for c in checks if c['engine'] == 'sched-smt'], 'kind_free_text': 'z3 encoding of thread schedules over shared-memory events recorded from the real code; replay with real threads'},
    ],
    'checks': checks,
    'not_applicable': na,
    'notes': 'exit 0 held / 1 VIOLATION (natively replayed) / 2 inconclusive (never success) / 3 machinery error. Known findings: known_findings.json.',
}
json.dump(man, open(os.path.join(ROOT, 'MANIFEST.json'), 'w'), indent=1)
print('checks:', [c['property_id'] for c in checks], 'n/a:', len(na))
