"""Run every tests/yaml_files/**/*_test.yaml fixture of a repo checkout in its own subprocess (some crash
the interpreter) and print pass/fail per fixture.  usage: fixtures.py <repo> [out.json]"""
import sys, os, json, subprocess, glob
repo = sys.argv[1]
code = r'''
import sys, unittest
sys.path.insert(0, %r)
from tests.yaml_files_test import YamlFileTest
t = YamlFileTest.make_test_case_type(sys.argv[1], 'x')('test')
r = unittest.TestResult(); t.run(r)
print('RESULT', 'ok' if r.wasSuccessful() else 'fail')
'''
res = {}
for f in sorted(glob.glob(os.path.join(repo, 'tests/yaml_files/**/*_test.yaml'), recursive=True)):
    try:
        p = subprocess.run(['/venv/bin/python', '-c', code % repo, f], cwd=repo, capture_output=True, text=True, timeout=30,
                           env=dict(os.environ, PYTHONPATH=repo))
        out = [l for l in p.stdout.splitlines() if l.startswith('RESULT')]
        res[os.path.relpath(f, repo)] = out[0].split()[1] if out else f'crash rc={p.returncode}'
    except subprocess.TimeoutExpired:
        res[os.path.relpath(f, repo)] = 'timeout'
import collections
print(collections.Counter(res.values()))
if len(sys.argv) > 2:
    json.dump(res, open(sys.argv[2], 'w'), indent=1)
else:
    for k, v in res.items():
        if v != 'ok': print(v, k)
