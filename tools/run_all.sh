#!/bin/bash
# run every registered check (tier $1) sequentially; summary in /var/tmp/run_all_$1.log
tier=${1:-quick}
cd /verif
: > /var/tmp/run_all_$tier.log
for p in $(/venv/bin/python -c "import json; print(' '.join(c['property_id'] for c in json.load(open('MANIFEST.json'))['checks']))"); do
  s=$(date +%s)
  ./check $p --tier $tier > /var/tmp/run_${p}_$tier.log 2>&1
  rc=$?
  e=$(date +%s)
  echo "$p rc=$rc wall=$((e-s))s $(grep -m1 '^\[' /var/tmp/run_${p}_$tier.log | cut -c1-160)" >> /var/tmp/run_all_$tier.log
done
echo DONE >> /var/tmp/run_all_$tier.log
