"""Verify a sub-agent's seeded change in its worktree and store it under /verif/seeded/<id>/.
usage: seed_collect.py <worktree> <property> <seed-id>"""
import sys, os, subprocess, json, shutil, re
wt, pid, sid = sys.argv[1], sys.argv[2], sys.argv[3]
seed = os.path.join(wt, '_seed')
dst = os.path.join('/verif/seeded', sid)
def run(cmd, **kw):
    return subprocess.run(cmd, cwd=wt, capture_output=True, text=True, **kw)
patch = open(os.path.join(seed, 'patch.diff')).read()
# normalise: start from a clean tree, apply the patch file itself
run(['git', 'stash', '-u', '--', 'awesomeyaml'])
run(['git', 'checkout', '--', 'awesomeyaml'])
assert run(['git', 'status', '--short', 'awesomeyaml']).stdout.strip() == '', 'tree not clean'
d0 = run(['/venv/bin/python', '_seed/demo.py'], timeout=300)
ap = run(['git', 'apply', '_seed/patch.diff'])
assert ap.returncode == 0, ap.stderr
t = run(['/venv/bin/python', '-m', 'pytest', '-q', '-p', 'no:cacheprovider', '--timeout=900', '--continue-on-collection-errors'], timeout=900)
tail = [l for l in t.stdout.splitlines() if 'passed' in l][-1:]
base = subprocess.run(['/venv/bin/python', '/verif/tools/baseline.py', wt], capture_output=True, text=True)
d1 = run(['/venv/bin/python', '_seed/demo.py'], timeout=300)
run(['git', 'apply', '-R', '_seed/patch.diff'])
files = re.findall(r'^\+\+\+ b/(.*)$', patch, re.M)
meta = {
    'property': pid, 'seed': sid, 'files_touched': files,
    'tests_with_change': tail[0] if tail else t.stdout[-200:], 'baseline_with_change': base.stdout.strip().splitlines()[-1:],
    'demo_without_change': {'rc': d0.returncode, 'last': d0.stdout.strip().splitlines()[-1:]},
    'demo_with_change': {'rc': d1.returncode, 'last': d1.stdout.strip().splitlines()[-3:]},
    'needs_to_manifest': open(os.path.join(seed, 'notes.md')).read(),
    'ran': ['git apply _seed/patch.diff', 'pytest baseline cmd (tools/baseline.py <worktree>)', '_seed/demo.py with and without the change'],
    'base_commit': subprocess.run(['git', '-C', wt, 'rev-parse', 'HEAD'], capture_output=True, text=True).stdout.strip(),
}
ok = d0.returncode == 0 and d1.returncode != 0 and base.returncode == 0
meta['verified'] = ok
print(json.dumps({k: meta[k] for k in ('tests_with_change', 'baseline_with_change', 'demo_without_change', 'demo_with_change', 'verified', 'files_touched')}, indent=1))
if ok:
    os.makedirs(dst, exist_ok=True)
    shutil.copy(os.path.join(seed, 'patch.diff'), dst)
    shutil.copy(os.path.join(seed, 'demo.py'), dst)
    json.dump(meta, open(os.path.join(dst, 'meta.json'), 'w'), indent=1)
sys.exit(0 if ok else 1)
