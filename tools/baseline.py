"""Run the repository's pinned test suite (guard OFF) and compare with /root/.vp/BASELINE.json."""
import json, os, subprocess, sys, tempfile, xml.etree.ElementTree as ET
repo = sys.argv[1] if len(sys.argv) > 1 else '/repo'
base = json.load(open('/root/.vp/BASELINE.json'))
with tempfile.TemporaryDirectory() as d:
    x = os.path.join(d, 'j.xml')
    env = dict(os.environ); env.pop('AWESOMEYAML_VERIF', None)
    subprocess.run(['/venv/bin/python', '-m', 'pytest', '-ra', '-q', '-p', 'no:cacheprovider', '--timeout=900',
                    '--continue-on-collection-errors', '--junitxml=' + x], cwd=repo, env=env,
                   stdout=subprocess.DEVNULL, stderr=subprocess.DEVNULL)
    passed = set()
    for tc in ET.parse(x).getroot().iter('testcase'):
        if not any(c.tag in ('failure', 'error', 'skipped') for c in tc):
            passed.add(f"{tc.get('classname') or ''}::{tc.get('name') or ''}")
want = set(base['stable_pass'])
missing = sorted(want - passed - {'::'})  # '::' is the junit artefact of pytest's INTERNALERROR, not a test
print(f'passed={len(passed)} baseline={len(want)} missing={missing}')
sys.exit(1 if missing else 0)
