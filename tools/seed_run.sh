#!/bin/bash
# usage: seed_run.sh <seed-id> <property> [tier]   -- apply a seeded change to /repo, run the check, undo it
sid=$1; pid=$2; tier=${3:-quick}
cd /verif
git -C /repo diff --quiet || { echo "/repo not clean"; exit 9; }
git -C /repo apply /verif/seeded/$sid/patch.diff || exit 9
./check $pid --tier $tier > /var/tmp/seedrun_${sid}_${pid}.log 2>&1
rc=$?
git -C /repo checkout -- .
echo "seed=$sid property=$pid tier=$tier exit=$rc $(grep -c '^VIOLATION' /var/tmp/seedrun_${sid}_${pid}.log) violation lines"
grep -m2 -A1 '^VIOLATION' /var/tmp/seedrun_${sid}_${pid}.log | cut -c1-600
# restore the evidence of the unchanged tree
git -C /verif checkout -- evidence/$pid.json 2>/dev/null
exit 0
