"""print the prompt given to a mutant-writing sub-agent for one property (nothing from /verif except the property text)"""
import json, sys
pid = sys.argv[1]
p = [json.loads(l) for l in open('/verif/properties.jsonl') if json.loads(l)['id'] == pid][0]
import glob, os
ideas = []
for m in sorted(glob.glob('/verif/seeded/%s_*/meta.json' % pid)):
    n = json.load(open(m)).get('needs_to_manifest', '')
    ideas.append(' '.join(n.split())[:420])
taken = ''
if ideas:
    taken = '\nALREADY TAKEN by earlier attempts (do not reuse these ideas; find a different mechanism, ideally in a different function or file, and a different kind of trigger):\n' + ''.join('  %d) %s\n' % (i + 1, t) for i, t in enumerate(ideas))
print(f"""You are helping to evaluate a verification tool for the Python library SamsungLabs/awesomeyaml (a YAML config library: custom tags, priority-based multi-file merging, includes, cross-references, lazy evaluation).

You have your own scratch git worktree of the library at /tmp/wt_{pid} (detached HEAD). Work ONLY inside /tmp/wt_{pid}. Never touch /repo or /verif, and do not read anything under /verif. Run Python as `/venv/bin/python` with the current directory set to /tmp/wt_{pid} (then `import awesomeyaml` resolves to your worktree copy). There is no network.

This is the semantic property the library is supposed to satisfy:

  Title: {p['title']}
  Statement: {p['statement']}
  Quantified over: {p['quantifier']['text']}

YOUR TASK: write ONE realistic change (a plausible bug a developer could introduce: a refactoring slip, a wrong condition, a dropped update, a reordered statement, an off-by-one, two cooperating edits that each look fine alone...) to the library source under /tmp/wt_{pid}/awesomeyaml/ that BREAKS this property, such that:
  1. the library still imports and the existing test suite still passes exactly as before. Check with:  cd /tmp/wt_{pid} && /venv/bin/python -m pytest -q -p no:cacheprovider --timeout=900 --continue-on-collection-errors   (before your change it reports "262 passed, 1 error"; the 1 error is a pre-existing collection error for tests/function_test.py and must stay exactly like that; the number of passed tests must stay 262);
  2. the breakage needs something SPECIFIC to manifest - e.g. a particular merge history / multi-step sequence of operations, an unusual but valid input (particular nesting depth, key-name coincidence, particular flag/tag combination, index value, ordering), a fault at a particular point, or two cooperating sites - NOT something that ordinary simple use would expose at once. A change that breaks the simplest one-line examples is not wanted;
  3. it is a genuine violation of the property as stated (not merely a change of an error message, not a crash on import, not a change in unrelated behaviour).

First read the relevant source to understand the mechanism, and first confirm that the property actually holds on the unmodified worktree for the inputs of your demonstration.

NOTE on imports: a script placed in _seed/ gets _seed/ (not the worktree root) as sys.path[0], so a bare `import awesomeyaml` there would resolve to a different installed copy. demo.py must therefore start with `import sys, os; sys.path.insert(0, os.path.dirname(os.path.dirname(os.path.abspath(__file__))))` so that it always tests the copy in the worktree it lives in. Also do not use `git stash` (stashes are shared between worktrees) and never use pkill/killall (other jobs run on this machine); use `git apply -R _seed/patch.diff` / `git apply _seed/patch.diff` to switch between the two states.
{taken}
DELIVERABLES (all inside /tmp/wt_{pid}/_seed/):
  - patch.diff : output of `git diff` for your change (only files under awesomeyaml/; do NOT include _seed/ or tests in it);
  - demo.py : a small self-contained program, run as `cd /tmp/wt_{pid} && /venv/bin/python _seed/demo.py`, that exits 0 and prints PASS when the property holds on its inputs and exits 1 printing FAIL (with what was observed vs expected) when it does not. It must FAIL with your change applied and PASS without it (verify both, using `git stash` / `git apply -R` or similar), and it must only use the public behaviour described by the property (build configs, merge, evaluate, dump/parse, container operations ...), not internals that your patch renamed;
  - notes.md : 5-15 lines: what you changed, why it breaks the property, exactly what is needed for it to manifest, and what you ran (test suite result with the change, demo result with and without the change).
Leave the worktree with your change APPLIED in the working tree (uncommitted) and the _seed/ directory present. Do not commit.

Report back briefly: the idea of the change, the files touched, and the outcome of the three runs (tests with change, demo with change, demo without change).""")
