import io, os, builtins
import awesomeyaml.builder as bld
from awesomeyaml.builder import Builder
from awesomeyaml.config import Config
from awesomeyaml.errors import PreprocessError

VFS = {}
EXISTS = {}
class _OS:
    path = os.path
    @staticmethod
    def getcwd(): return '/cwd'
def _open(path, mode='r'):
    p = os.path.normpath(path)
    if p in VFS and EXISTS[p]:
        return io.StringIO(VFS[p])
    raise FileNotFoundError(p)
bld.open = _open          # module-level name shadows builtins.open inside builder.py only
bld.os = _OS
import awesomeyaml.nodes.include as inc

def c06(e_proj: bool, e_cwd: bool) -> bool:
    """
    post: _
    """
    VFS.clear(); EXISTS.clear()
    VFS['/proj/main.yaml'] = "a: 1\nk: !include inc.yaml\n"; EXISTS['/proj/main.yaml'] = True
    VFS['/proj/inc.yaml'] = "v: proj\n"; EXISTS['/proj/inc.yaml'] = e_proj
    VFS['/cwd/inc.yaml'] = "v: cwd\n"; EXISTS['/cwd/inc.yaml'] = e_cwd
    try:
        cfg = Config.build('/proj/main.yaml')
    except PreprocessError as e:
        return (not e_proj) and (not e_cwd) and 'inc.yaml' in str(e)
    if e_proj:
        return cfg['k']['v'] == 'proj'
    return e_cwd and cfg['k']['v'] == 'cwd'
