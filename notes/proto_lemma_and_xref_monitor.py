from typing import Optional
from awesomeyaml.nodes.node import ConfigNode
from awesomeyaml.nodes.dict import ConfigDict
from awesomeyaml.eval_context import EvalContext
from awesomeyaml.config import Config

class Diverged(Exception):
    pass
FLAG = [False]

class MonCtx(EvalContext):
    def get_node(self, *path, **kw):
        self._n = getattr(self, '_n', 0) + 1
        if self._n > 20:
            FLAG[0] = True
            raise Diverged()
        return super().get_node(*path, **kw)

def lemma_safe(sa: Optional[bool], ia: Optional[bool], da: bool, sb: Optional[bool], ib: Optional[bool], db: bool, which: bool) -> bool:
    """
    post: _
    """
    a = ConfigNode(1); b = ConfigNode(2)
    a._safe, a._implicit_safe, a._default_safe = sa, ia, da
    b._safe, b._implicit_safe, b._default_safe = sb, ib, db
    sa0, sb0 = a.ayns.safe, b.ayns.safe
    if which:
        a._replace_other(b)
    else:
        a._replace_self(b)
    return (not a.ayns.safe) or (sa0 and sb0)

PATHS = ['a', 'b', 'c', 'zz']
def pick(x, n):
    for v in range(n):
        if x == v: return v
    raise AssertionError

def xref_term(ta: int, tb: int) -> bool:
    """
    pre: 0 <= ta < 4 and 0 <= tb < 4
    post: _
    """
    ta, tb = pick(ta, 4), pick(tb, 4)
    FLAG[0] = False
    src = f"a: !xref {PATHS[ta]}\nb: !xref {PATHS[tb]}\nc: [1]\n"
    try:
        cfg = Config.build(src, raw_yaml=True, eval_ctx=MonCtx())
    except Exception as e:
        return not FLAG[0]
    return not FLAG[0]
