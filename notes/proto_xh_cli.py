import sys
import crosshair.enforce as enf
enf.EnforcedConditions.wants_codeobj = lambda self, codeobj: codeobj.co_name == "_crosshair_with_enforcement"
from crosshair.main import main
main(sys.argv[1:])
