import dis, types
import awesomeyaml.nodes.eval as ev
from awesomeyaml.nodes.eval import EvalNode

class FakeCode:
    def __init__(self, *a):
        (self.co_argcount, self.co_posonlyargcount, self.co_kwonlyargcount, self.co_nlocals, self.co_stacksize, self.co_flags,
         self.co_code, self.co_consts, self.co_names, self.co_varnames, self.co_filename, self.co_name, self.co_qualname,
         self.co_firstlineno, self.co_lnotab, self.co_exceptiontable, self.co_freevars, self.co_cellvars) = a
class _T:
    CodeType = FakeCode
    ModuleType = types.ModuleType
ev.types = _T

OPS = ['LOAD_NAME', 'LOAD_CONST', 'POP_JUMP_IF_FALSE', 'JUMP_FORWARD', 'JUMP_BACKWARD', 'RETURN_VALUE', 'BINARY_OP', 'POP_TOP']
NCACHE = {op: dis._inline_cache_entries[dis.opmap[op]] for op in OPS}

def pick(x, n):
    for v in range(n):
        if x == v: return v
    raise AssertionError

def decode(code_bytes):
    """list of (idx, opname, arg, target_idx_or_None) using instruction indices (2-byte units)."""
    out = []
    i = 0
    n = len(code_bytes) // 2
    while i < n:
        op = code_bytes[2*i]; arg = code_bytes[2*i+1]
        name = dis.opname[op]
        nc = dis._inline_cache_entries[op]
        tgt = None
        if op in dis.hasjrel:
            tgt = (i + 1 + nc - arg) if 'BACKWARD' in name else (i + 1 + nc + arg)
        out.append((i, name, arg, tgt))
        i += 1 + nc
    return out

def patch3(o0: int, a0: int, o1: int, a1: int, o2: int, a2: int) -> bool:
    """
    pre: 0 <= a0 < 4 and 0 <= a1 < 4 and 0 <= a2 < 4
    post: _
    """
    ops = [OPS[pick(o, len(OPS))] for o in (o0, o1, o2)] + ['RETURN_VALUE']
    args = [a0, a1, a2, 0]
    raw = []
    for op, a in zip(ops, args):
        raw.append(bytes([dis.opmap[op]]) + a.to_bytes(1, 'little'))
        raw.extend([b'\x00\x00'] * NCACHE[op])
    code_bytes = b''.join(raw)
    old = decode(code_bytes)
    starts = {i for i, *_ in old}
    nunits = len(code_bytes) // 2
    # well-formedness of the input program: jump targets land on instruction starts
    for i, name, arg, tgt in old:
        if tgt is not None and tgt not in starts:
            return True
    names = ('n0', 'n1', 'n2', 'n3')
    fc = FakeCode(0, 0, 0, 0, 4, 0, code_bytes, (None, 1, 2, 3), names, (), 'f', '<m>', '<m>', 1, b'', b'', (), ())
    new, changed = EvalNode._patch_access_to_globals(fc)
    if not changed:
        return all(n != 'LOAD_NAME' for _, n, _, _ in old)
    nd = decode(new.co_code)
    # simulation: walk both; LOAD_NAME x  ==> LOAD_NAME wrapper ; LOAD_ATTR x(3.12: namei<<1)
    j = 0
    m = {}
    for i, name, arg, tgt in old:
        m[i] = nd[j][0]
        if name == 'LOAD_NAME':
            if not (nd[j][1] == 'LOAD_NAME' and new.co_names[nd[j][2]] == '__ayns_globals_wrapper'): return False
            if not (nd[j+1][1] == 'LOAD_ATTR' and (nd[j+1][2] >> 1) < len(new.co_names) and new.co_names[nd[j+1][2] >> 1] == names[arg] and (nd[j+1][2] & 1) == 0): return False
            j += 2
        else:
            if nd[j][1] != name: return False
            j += 1
    j = 0
    for i, name, arg, tgt in old:
        k = [q for q, e in enumerate(nd) if e[0] == m[i]][0]
        if name == 'LOAD_NAME': continue
        if tgt is not None and nd[k][3] != m[tgt]: return False
    return True
