from typing import Optional
import awesomeyaml.yaml as ayy
from awesomeyaml.builder import Builder
from awesomeyaml.config import Config

SYM = {}
_orig = ayy._decode_metadata
def _stub(encoded):
    if encoded and encoded.startswith('s'):
        kw = dict(SYM[encoded])
        kw['metadata'] = {}
        return kw
    return _orig(encoded)
ayy._decode_metadata = _stub

def flags(prio_present, prio, del_present, dele):
    kw = {}
    if prio_present: kw['priority'] = prio
    if del_present: kw['delete'] = dele
    return kw

def c03(pp1: bool, p1: int, pp2: bool, p2: int, pp3: bool, p3: int) -> bool:
    """
    pre: -1 <= p1 <= 1 and -1 <= p2 <= 1 and -1 <= p3 <= 1
    post: _
    """
    SYM.clear()
    SYM['s1'] = flags(pp1, p1, False, None)
    SYM['s2'] = flags(pp2, p2, False, None)
    SYM['s3'] = flags(pp3, p3, False, None)
    d1 = "a: !metadata:s1 {b: 10, c: 11}\n"
    d2 = "a: {b: !metadata:s2 20}\n"
    d3 = "a: !metadata:s3 {b: 30}\n"
    b = Builder()
    b.add_multiple_sources(d1, d2, d3, raw_yaml=True)
    r = Config(b.build())
    e1 = p1 if pp1 else 0
    e2 = p2 if pp2 else 0
    e3 = p3 if pp3 else 0
    best, bp = 10, e1
    if e2 >= bp: best, bp = 20, e2
    if e3 >= bp: best, bp = 30, e3
    return r['a']['b'] == best and r['a']['c'] == 11
