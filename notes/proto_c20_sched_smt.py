import sys, threading, types, time
import z3
import awesomeyaml as ay
from awesomeyaml.nodes.node import ConfigNode
from awesomeyaml import errors, Builder
MUT = len(sys.argv) > 1
if MUT:
    ConfigNode._default_filename = types.SimpleNamespace()   # mutant: not thread-local

class Sched:
    """mode 'record': log events; mode 'replay': enforce a total order of (thread, idx) events."""
    def __init__(self):
        self.mode = 'record'; self.ev = {}; self.cnt = {}; self.order = []; self.pos = 0
        self.cv = threading.Condition(); self.free = False; self.names = {}
    def name(self): return self.names.get(threading.get_ident())
    def point(self, kind, cell, val):
        th = self.name()
        if th is None: return
        i = self.cnt.get(th, 0); self.cnt[th] = i + 1
        if self.mode == 'record':
            self.ev.setdefault(th, []).append((kind, cell, val)); return
        with self.cv:
            while not self.free:
                if self.pos >= len(self.order): self.free = True; break
                if self.order[self.pos] == (th, i):
                    self.pos += 1; self.cv.notify_all(); return
                if (th, i) not in self.order_set: self.free = True; self.cv.notify_all(); break
                if not self.cv.wait(timeout=2.0): self.free = True; self.cv.notify_all(); break
    def done(self, th):
        # thread finished: drop its remaining events from the order
        with self.cv:
            self.order = self.order[:self.pos] + [e for e in self.order[self.pos:] if e[0] != th]
            self.cv.notify_all()
S = Sched()
class Proxy:
    def __init__(self, name, target):
        object.__setattr__(self, '_n', name); object.__setattr__(self, '_t', target)
    def _cell(self, a):
        t = object.__getattribute__(self, '_t'); n = object.__getattribute__(self, '_n')
        return (n, a, S.name() if isinstance(t, threading.local) else '*')
    def __getattr__(self, a):
        t = object.__getattribute__(self, '_t')
        cell = self._cell(a)
        try: v = getattr(t, a)
        except AttributeError:
            S.point('R', cell, '<missing>'); raise
        S.point('R', cell, v)
        return getattr(t, a)     # re-read after being scheduled
    def __setattr__(self, a, v):
        S.point('W', self._cell(a), v); setattr(object.__getattribute__(self, '_t'), a, v)
ConfigNode._default_filename = Proxy('fn', ConfigNode._default_filename)
ConfigNode._default_safe = Proxy('safe', ConfigNode._default_safe)
errors._api_entered = Proxy('api', errors._api_entered)
open('fA.yaml','w').write("a: [1,2,3]\nb: {c: [1,2]}\n")
open('fB.yaml','w').write("x: 1\ny: {z: 2}\n")
RES = {}
def body(name, f, safe):
    S.names[threading.get_ident()] = name
    try:
        b = Builder(); b.add_source(f, safe=safe); r = b.build()
        RES[name] = sorted((str(p), n.ayns.source_file, n.ayns.safe) for p, n in r.ayns.nodes_with_paths())
    except Exception as e:
        RES[name] = ('EXC', type(e).__name__)
    finally:
        S.done(name)
def run_seq():
    for a in (('A', 'fA.yaml', True), ('B', 'fB.yaml', False)):
        th = threading.Thread(target=body, args=a); th.start(); th.join()
run_seq()
seq = dict(RES); evA, evB = S.ev['A'], S.ev['B']
s = z3.Solver()
allev = [(th, i, e) for th, evs in (('A', evA), ('B', evB)) for i, e in enumerate(evs)]
ts = {(th, i): z3.Int(f't_{th}_{i}') for th, i, e in allev}
s.add(z3.Distinct(*ts.values()))
E = {'A': evA, 'B': evB}
for th in E:
    for i in range(len(E[th]) - 1): s.add(ts[(th, i)] < ts[(th, i + 1)])
def writes(cell): return [(th, i, e) for th, i, e in allev if e[0] == 'W' and e[1] == cell]
def sees_recorded(th, i, e):
    cell = e[1]
    own = [j for j in range(i) if E[th][j][0] == 'W' and E[th][j][1] == cell]
    conds = []
    for t2, j, w in writes(cell):
        if t2 == th or w[2] == e[2]: continue
        c = ts[(t2, j)] > ts[(th, i)]
        if own: c = z3.Or(c, ts[(t2, j)] < ts[(th, own[-1])])
        conds.append(c)
    return z3.And(conds) if conds else z3.BoolVal(True)
reads = [(th, i, e) for th, i, e in allev if e[0] == 'R']
div = []
for th, i, e in reads:
    before = [z3.Implies(ts[(t2, j)] < ts[(th, i)], sees_recorded(t2, j, e2)) for t2, j, e2 in reads if (t2, j) != (th, i)]
    div.append(z3.And(z3.Not(sees_recorded(th, i, e)), *before))

dv = [z3.Bool(f'div_{k}') for k in range(len(div))]
for b, d in zip(dv, div): s.add(b == d)
s.add(z3.Or(dv))
tries = 0
while True:
    r = s.check(); print('MUT' if MUT else 'TLS', r, 'try', tries)
    if str(r) != 'sat': break
    m = s.model()
    which = [k for k, b in enumerate(dv) if z3.is_true(m.eval(b))]
    order = [(th, i) for th, i, e in sorted(allev, key=lambda x: m[ts[(x[0], x[1])]].as_long())]
    S.mode = 'replay'; S.order = order; S.order_set = set(order); S.pos = 0; S.cnt = {}; S.free = False; RES.clear(); S.names.clear()
    tA = threading.Thread(target=body, args=('A', 'fA.yaml', True)); tB = threading.Thread(target=body, args=('B', 'fB.yaml', False))
    tA.start(); tB.start(); tA.join(); tB.join()
    print('  divergent reads:', [(reads[k][0], reads[k][1], reads[k][2]) for k in which][:3])
    if RES != seq:
        for k in 'AB':
            for x, y in zip(seq[k], RES[k]):
                if x != y: print('   seq', x, ' conc', y)
        print('VIOLATION reproduced'); break
    for k in which: s.add(z3.Not(dv[k]))
    tries += 1
    if tries > 30: break
