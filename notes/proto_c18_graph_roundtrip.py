from typing import Optional
import yaml
import awesomeyaml.yaml as ayy
from awesomeyaml.nodes.node import ConfigNode
from awesomeyaml.nodes.dict import ConfigDict
from awesomeyaml.nodes.list import ConfigList
from awesomeyaml.builder import Builder

TAB = {}
def _enc(md):
    k = f"t{len(TAB)}"
    TAB[k] = dict(md)
    return k
_orig_dec = ayy._decode_metadata
def _dec(encoded):
    if not encoded:
        return {}
    md = dict(TAB[encoded])
    kwargs = {}
    for special in ConfigNode.special_metadata_names:
        if special in md:
            kwargs[special] = md.pop(special)
    kwargs['metadata'] = md
    return kwargs
ayy._encode_metadata = _enc
ayy._decode_metadata = _dec

def graph_roundtrip(node):
    dumper = ayy.AwesomeyamlDumper(None)
    dumper.metadata = []; dumper.exclude_metadata = set()
    g = dumper.represent_data(node)
    ctx = Builder()
    loader = ayy.AwesomeyamlLoader("")
    loader.context = ctx
    return loader.construct_document(g)

def eff(n):
    return (n.ayns.priority, n.ayns.delete, n.ayns.allow_new, n.ayns.safe, n.ayns.explicit_delete)

def c18(p: int, pp: bool, d: Optional[bool], p2: int, pp2: bool, d2: Optional[bool]) -> bool:
    """
    pre: -1 <= p <= 1 and -1 <= p2 <= 1
    post: _
    """
    TAB.clear()
    inner = ConfigList([1, 2], priority=(p2 if pp2 else None), delete=d2)
    root = ConfigDict({'a': ConfigDict({'x': inner, 'y': 5}, priority=(p if pp else None), delete=d)})
    back = graph_roundtrip(root)
    ok = True
    for path in (['a'], ['a', 'x'], ['a', 'y'], ['a', 'x', 0]):
        n1 = root.ayns.get_node(path); n2 = back.ayns.get_node(path)
        ok = ok and type(n1) is type(n2) and eff(n1) == eff(n2)
    return ok
